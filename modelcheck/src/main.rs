use std::hash::{BuildHasher, Hasher};

use model::map::MutableKeys as MK;
use real::map::MutableKeys as RK;

#[derive(Clone, Copy, Default)]
struct Mode(u8);
struct H(u64, u8);
impl Hasher for H {
    fn finish(&self) -> u64 {
        match self.1 {
            0 => self.0,                   // identity
            1 => 0x5555_5555_5555_5555,    // every key collides
            2 => self.0.reverse_bits(),
            _ => self.0.wrapping_mul(0x9E37_79B9_7F4A_7C15),
        }
    }
    fn write(&mut self, b: &[u8]) {
        for x in b {
            self.0 = (self.0 << 8) | *x as u64;
        }
    }
}
impl BuildHasher for Mode {
    type Hasher = H;
    fn build_hasher(&self) -> H {
        H(0, self.0)
    }
}

struct Rng(u64);
impl Rng {
    fn next(&mut self) -> u64 {
        self.0 ^= self.0 << 13;
        self.0 ^= self.0 >> 7;
        self.0 ^= self.0 << 17;
        self.0
    }
    fn below(&mut self, n: u64) -> u64 {
        self.next() % n
    }
}

type R = real::IndexMap<u8, u16, Mode>;
type M = model::IndexMap<u8, u16, Mode>;

fn same(r: &R, m: &M, what: &str, step: usize) {
    assert_eq!(r.len(), m.len(), "len after {what} at step {step}");
    let a: Vec<(u8, u16)> = r.iter().map(|(k, v)| (*k, *v)).collect();
    let b: Vec<(u8, u16)> = m.iter().map(|(k, v)| (*k, *v)).collect();
    assert_eq!(a, b, "entry order after {what} at step {step}");
    assert_eq!(r.iter().len(), m.iter().len());
    assert_eq!(r.iter().size_hint(), m.iter().size_hint());
    let a: Vec<(u8, u16)> = r.iter().rev().map(|(k, v)| (*k, *v)).collect();
    let b: Vec<(u8, u16)> = m.iter().rev().map(|(k, v)| (*k, *v)).collect();
    assert_eq!(a, b, "reverse iteration after {what} at step {step}");
}

fn main() {
    let seed: u64 = std::env::var("VERIF_SEED").ok().and_then(|s| s.parse().ok()).unwrap_or(0);
    let runs: usize = std::env::args().nth(1).and_then(|s| s.parse().ok()).unwrap_or(400);
    let mut rng = Rng(0x1234_5678_9ABC_DEF1 ^ seed.wrapping_mul(0x9E37_79B9));
    let mut calls = 0usize;
    for run in 0..runs {
        let mode = Mode((run % 4) as u8);
        let cap = rng.below(6) as usize;
        let mut r: R = real::IndexMap::with_capacity_and_hasher(cap, mode);
        let mut m: M = model::IndexMap::with_capacity_and_hasher(cap, mode);
        assert!(r.capacity() >= cap && m.capacity() >= cap);
        let universe = 2 + rng.below(14);
        for step in 0..120 {
            let k = rng.below(universe) as u8;
            let v = rng.below(1000) as u16;
            calls += 1;
            match rng.below(25) {
                0 | 1 | 2 => {
                    assert_eq!(r.insert(k, v), m.insert(k, v), "insert");
                    same(&r, &m, "insert", step);
                }
                3 => {
                    assert_eq!(r.get(&k), m.get(&k), "get");
                    assert_eq!(r.contains_key(&k), m.contains_key(&k));
                    assert_eq!(r.get_full(&k), m.get_full(&k), "get_full");
                }
                4 => {
                    let a = r.get_full_mut(&k).map(|(i, k, p)| { *p = v; (i, *k) });
                    let b = m.get_full_mut(&k).map(|(i, k, p)| { *p = v; (i, *k) });
                    assert_eq!(a, b, "get_full_mut");
                    same(&r, &m, "get_full_mut", step);
                }
                5 => {
                    let a = RK::get_full_mut2(&mut r, &k).map(|(i, k, p)| { *p = v; (i, *k) });
                    let b = MK::get_full_mut2(&mut m, &k).map(|(i, k, p)| { *p = v; (i, *k) });
                    assert_eq!(a, b, "get_full_mut2");
                    same(&r, &m, "get_full_mut2", step);
                }
                6 => {
                    let i = rng.below(universe + 2) as usize;
                    assert_eq!(r.get_index(i), m.get_index(i), "get_index");
                    let a = RK::get_index_mut2(&mut r, i).map(|(k, p)| { *p = v; *k });
                    let b = MK::get_index_mut2(&mut m, i).map(|(k, p)| { *p = v; *k });
                    assert_eq!(a, b, "get_index_mut2");
                    same(&r, &m, "get_index_mut2", step);
                }
                7 | 8 => {
                    assert_eq!(r.swap_remove_full(&k), m.swap_remove_full(&k), "swap_remove_full");
                    same(&r, &m, "swap_remove_full", step);
                }
                9 | 10 => {
                    let i = rng.below(universe + 2) as usize;
                    assert_eq!(r.swap_remove_index(i), m.swap_remove_index(i), "swap_remove_index");
                    same(&r, &m, "swap_remove_index", step);
                }
                11 | 12 => {
                    use model::map::Entry as ME;
                    use real::map::Entry as RE;
                    let a = match r.entry(k) {
                        RE::Occupied(mut e) => { let o = std::mem::replace(e.get_mut(), v); (true, e.index(), o) }
                        RE::Vacant(e) => { let i = e.index(); e.insert(v); (false, i, 0) }
                    };
                    let b = match m.entry(k) {
                        ME::Occupied(mut e) => { let o = std::mem::replace(e.get_mut(), v); (true, e.index(), o) }
                        ME::Vacant(e) => { let i = e.index(); e.insert(v); (false, i, 0) }
                    };
                    assert_eq!(a, b, "entry");
                    same(&r, &m, "entry", step);
                }
                13 => {
                    let mask = rng.next();
                    let mut seen_r = vec![];
                    let mut seen_m = vec![];
                    RK::retain2(&mut r, |k, p| { seen_r.push((*k, *p)); *p = p.wrapping_add(1); mask >> (*k % 64) & 1 == 1 });
                    MK::retain2(&mut m, |k, p| { seen_m.push((*k, *p)); *p = p.wrapping_add(1); mask >> (*k % 64) & 1 == 1 });
                    assert_eq!(seen_r, seen_m, "retain2 visiting order");
                    same(&r, &m, "retain2", step);
                }
                14 => {
                    let j = rng.below(4) as usize;
                    let b = rng.below(4) as usize;
                    let (mut x, mut y) = (vec![], vec![]);
                    {
                        let mut d = r.drain(..);
                        let mut e = m.drain(..);
                        assert_eq!(d.len(), e.len());
                        assert_eq!(d.size_hint(), e.size_hint());
                        for _ in 0..j { x.push(d.next()); y.push(e.next()); }
                        for _ in 0..b { x.push(d.next_back()); y.push(e.next_back()); }
                        assert_eq!(d.len(), e.len());
                        if rng.below(4) == 0 { std::mem::forget(d); std::mem::forget(e); }
                    }
                    assert_eq!(x, y, "drain");
                    same(&r, &m, "drain", step);
                    assert_eq!(r.len(), 0);
                }
                15 => {
                    r.clear();
                    m.clear();
                    same(&r, &m, "clear", step);
                }
                16 => {
                    let add = rng.below(9) as usize;
                    match rng.below(5) {
                        0 => { r.reserve(add); m.reserve(add); }
                        1 => { r.reserve_exact(add); m.reserve_exact(add); }
                        2 => { assert_eq!(r.try_reserve(add).is_ok(), m.try_reserve(add).is_ok()); }
                        3 => { assert_eq!(r.try_reserve_exact(add).is_ok(), m.try_reserve_exact(add).is_ok()); }
                        _ => { r.shrink_to_fit(); m.shrink_to_fit(); }
                    }
                    assert!(r.capacity() >= r.len() && m.capacity() >= m.len());
                    same(&r, &m, "reserve family", step);
                }
                17 => {
                    for huge in [usize::MAX, isize::MAX as usize, usize::MAX / 16 + 1] {
                        assert_eq!(r.try_reserve(huge).is_ok(), m.try_reserve(huge).is_ok(), "try_reserve huge");
                        assert_eq!(r.try_reserve_exact(huge).is_ok(), m.try_reserve_exact(huge).is_ok(), "try_reserve_exact huge");
                    }
                    same(&r, &m, "try_reserve huge", step);
                }
                18 => {
                    let r2 = r.clone();
                    let m2 = m.clone();
                    same(&r2, &m2, "clone", step);
                    assert_eq!(r == r2, m == m2);
                    let mut r3 = r.clone();
                    let mut m3 = m.clone();
                    r3.insert(k, v);
                    m3.insert(k, v);
                    assert_eq!(r == r3, m == m3, "eq after insert");
                    assert_eq!(r3 == r, m3 == m, "eq after insert, other side");
                }
                19 => {
                    let a: Vec<(u8, u16)> = r.clone().into_iter().collect();
                    let b: Vec<(u8, u16)> = m.clone().into_iter().collect();
                    assert_eq!(a, b, "into_iter");
                    let a: Vec<(u8, u16)> = r.clone().into_iter().rev().collect();
                    let b: Vec<(u8, u16)> = m.clone().into_iter().rev().collect();
                    assert_eq!(a, b, "into_iter rev");
                    let a: Vec<(u8, u16)> = (&r).into_iter().map(|(k, v)| (*k, *v)).collect();
                    let b: Vec<(u8, u16)> = (&m).into_iter().map(|(k, v)| (*k, *v)).collect();
                    assert_eq!(a, b, "&map into_iter");
                }
                20 | 21 => {
                    // raw-entry API, used as its contract demands (the map's own hash)
                    use model::map::raw_entry_v1::{RawEntryApiV1 as MA, RawEntryMut as MR};
                    use real::map::raw_entry_v1::{RawEntryApiV1 as RA, RawEntryMut as RR};
                    let h = mode.hash_one(&k);
                    let a = RA::raw_entry_v1(&r).from_key_hashed_nocheck(h, &k).map(|(k, v)| (*k, *v));
                    let b = MA::raw_entry_v1(&m).from_key_hashed_nocheck(h, &k).map(|(k, v)| (*k, *v));
                    assert_eq!(a, b, "raw from_key_hashed_nocheck");
                    let a = RA::raw_entry_v1(&r).from_key(&k).map(|(k, v)| (*k, *v));
                    let b = MA::raw_entry_v1(&m).from_key(&k).map(|(k, v)| (*k, *v));
                    assert_eq!(a, b, "raw from_key");
                    let a = RA::raw_entry_v1(&r).index_from_hash(h, |x| *x == k);
                    let b = MA::raw_entry_v1(&m).index_from_hash(h, |x| *x == k);
                    assert_eq!(a, b, "raw index_from_hash");
                    let a = match RA::raw_entry_mut_v1(&mut r).from_key_hashed_nocheck(h, &k) {
                        RR::Occupied(mut e) => { let o = e.insert(v); (true, e.index(), o) }
                        RR::Vacant(e) => { let i = e.index(); e.insert_hashed_nocheck(h, k, v); (false, i, 0) }
                    };
                    let b = match MA::raw_entry_mut_v1(&mut m).from_key_hashed_nocheck(h, &k) {
                        MR::Occupied(mut e) => { let o = e.insert(v); (true, e.index(), o) }
                        MR::Vacant(e) => { let i = e.index(); e.insert_hashed_nocheck(h, k, v); (false, i, 0) }
                    };
                    assert_eq!(a, b, "raw entry mut");
                    same(&r, &m, "raw entry mut", step);
                    assert_eq!(r.get_full(&k), m.get_full(&k), "lookup after raw insert");
                }
                22 => {
                    use model::map::raw_entry_v1::{RawEntryApiV1 as MA, RawEntryMut as MR};
                    use real::map::raw_entry_v1::{RawEntryApiV1 as RA, RawEntryMut as RR};
                    let a = match RA::raw_entry_mut_v1(&mut r).from_key(&k) {
                        RR::Occupied(e) => Some(e.swap_remove_entry()),
                        RR::Vacant(e) => { e.insert(k, v); None }
                    };
                    let b = match MA::raw_entry_mut_v1(&mut m).from_key(&k) {
                        MR::Occupied(e) => Some(e.swap_remove_entry()),
                        MR::Vacant(e) => { e.insert(k, v); None }
                    };
                    assert_eq!(a, b, "raw from_key swap_remove/insert");
                    same(&r, &m, "raw from_key swap_remove/insert", step);
                }
                _ => {
                    assert_eq!(r.get_index_of(&k), m.get_index_of(&k), "get_index_of");
                    assert_eq!(r.is_empty(), m.is_empty());
                }
            }
        }
    }
    println!("modelcheck ok: {runs} runs, {calls} calls compared, seed {seed}");
}
