//! see Cargo.toml
