"""Instance table: every solver obligation of the framework (DESIGN.md §3.4/§3.6).

An instance is one Kani proof harness = one call of a generic harness body in
/verif/harness/src with concrete size/kind/group parameters. `./check gen` writes
/verif/harness/src/generated.rs from this table; the runner selects instances per
property and tier.
"""

QUICK, THOROUGH = "quick", "thorough"

KINDS = {
    "pq": dict(ty="PqI", double=False),
    "dq": dict(ty="DqI", double=True),
    "pqn": dict(ty="PqN", double=False),
    "dqn": dict(ty="DqN", double=True),
}

INSTANCES = []
_names = set()


def inst(name, expr, kind, nmax, props, family, meta=None, memsafe=True, unwind_min=0,
         cost=30, mem=3, covers_required=True):
    assert name not in _names, name
    _names.add(name)
    INSTANCES.append(dict(
        name=name, expr=expr, kind=kind, nmax=nmax, props=props, family=family,
        meta=meta or {}, memsafe=memsafe, unwind_min=unwind_min, cost=cost, mem=mem,
        covers_required=covers_required,
    ))


def tiers(prop_tiers):
    """{'C01': QUICK, ...}"""
    return dict(prop_tiers)


GRP = {"all": "step::ALL", "st": "step::STRUCT", "or": "step::ORDER", "mo": "step::MODEL"}
PRE = {"inv": "Pre::Inv", "cs": "Pre::CrashSafe"}
TAB = {"any": "Tables::Any", "id": "Tables::Identity"}


def step(op, kind, n, pre, grp, props, tables="any", grow=1, **kw):
    ty = KINDS[kind]["ty"]
    name = f"step_{kind}_{op}_n{n}_{pre}_{grp}" + ("" if tables == "any" else "_id")
    expr = f"step::{op}::<{ty}, {n}>({PRE[pre]}, {TAB[tables]}, {GRP[grp]})"
    inst(name, expr, kind, n + grow, props, "STEP",
         meta=dict(op=op, kind=kind, n=n, pre=pre, group=grp, tables=tables),
         covers_required=(n > 0), **kw)


# --------------------------------------------------------------------------------------
# STEP: core single-element operations
# --------------------------------------------------------------------------------------
def _core():
    for kind, qmax, tmax in (("pq", 4, 7), ("dq", 3, 5)):
        hi_ops = ["push", "change_priority", "change_priority_by", "remove", "pop_hi"]
        if kind == "dq":
            hi_ops.append("pop_lo")
        for op in hi_ops:
            grow = 1 if op == "push" else 0
            for n in range(0, tmax + 1):
                t = QUICK if n <= qmax else THOROUGH
                # order group -> C01/C02, model group -> C03, struct group from
                # order-free states -> C04 (and the continuation half of C10)
                ordp = "C01" if kind == "pq" else "C02"
                step(op, kind, n, "inv", "or", {ordp: t}, grow=grow)
                step(op, kind, n, "inv", "mo", {"C03": t}, grow=grow)
                step(op, kind, n, "cs", "st", {"C04": t, "C10": t}, grow=grow)


_core()


def select(prop, tier):
    out = []
    for i in INSTANCES:
        t = i["props"].get(prop)
        if t is None:
            continue
        if tier == THOROUGH or t == QUICK:
            out.append(i)
    return out
