"""Instance table: every solver obligation of the framework (DESIGN.md §3.4/§3.6).

An instance is one Kani proof harness = one call of a generic harness body in
/verif/harness/src with concrete size/kind/group parameters. `./check gen` writes
/verif/harness/src/generated.rs from this table; the runner selects instances per
property and tier.
"""

QUICK, THOROUGH = "quick", "thorough"

KINDS = {
    "pq": dict(ty="PqI", double=False),
    "dq": dict(ty="DqI", double=True),
    "pqn": dict(ty="PqN", double=False),
    "dqn": dict(ty="DqN", double=True),
}

INSTANCES = []
_names = set()


def inst(name, expr, kind, nmax, props, family, meta=None, memsafe=True, unwind_min=0,
         cost=30, mem=3, covers_required=True):
    assert name not in _names, name
    _names.add(name)
    INSTANCES.append(dict(
        name=name, expr=expr, kind=kind, nmax=nmax, props=props, family=family,
        meta=meta or {}, memsafe=memsafe, unwind_min=unwind_min, cost=cost, mem=mem,
        covers_required=covers_required,
    ))


def tiers(prop_tiers):
    """{'C01': QUICK, ...}"""
    return dict(prop_tiers)


GRP = {"all": "step::ALL", "st": "step::STRUCT", "or": "step::ORDER", "mo": "step::MODEL"}
PRE = {"inv": "Pre::Inv", "cs": "Pre::CrashSafe"}
TAB = {"any": "Tables::Any", "id": "Tables::Identity"}


def step(op, kind, n, pre, grp, props, tables="any", grow=1, **kw):
    ty = KINDS[kind]["ty"]
    name = f"step_{kind}_{op}_n{n}_{pre}_{grp}" + ("" if tables == "any" else "_id")
    expr = f"step::{op}::<{ty}, {n}>({PRE[pre]}, {TAB[tables]}, {GRP[grp]})"
    inst(name, expr, kind, n + grow, props, "STEP",
         meta=dict(op=op, kind=kind, n=n, pre=pre, group=grp, tables=tables),
         covers_required=(n > 0), **kw)


def retain(op, kind, n, pat, pre, grp, props, **kw):
    ty = KINDS[kind]["ty"]
    name = f"step_{kind}_{op}_n{n}_p{pat:0{max(n,1)}b}_{pre}_{grp}"
    expr = f"step::{op}::<{ty}, {n}, {pat}>({PRE[pre]}, {TAB['any']}, {GRP[grp]})"
    inst(name, expr, kind, n, props, "STEP",
         meta=dict(op=op, kind=kind, n=n, pre=pre, group=grp, tables="any", verdicts=f"{pat:0{max(n,1)}b}"),
         covers_required=(n > 0), **kw)


# --------------------------------------------------------------------------------------
# STEP: core single-element operations
# --------------------------------------------------------------------------------------
def _core():
    # (op, grow, heavy-on-dq)
    core = [("push", 1), ("change_priority", 0), ("change_priority_by", 0), ("remove", 0), ("pop_hi", 0)]
    for kind, qmax, tmax in (("pq", 4, 7), ("dq", 3, 5)):
        ops = list(core)
        if kind == "dq":
            ops.append(("pop_lo", 0))
        ordp = "C01" if kind == "pq" else "C02"
        for op, grow in ops:
            for n in range(0, tmax + 1):
                t = QUICK if n <= qmax else THOROUGH
                if kind == "dq" and op == "change_priority_by" and n > 2:
                    t = THOROUGH          # same sift path as change_priority
                # order group -> C01/C02, model group -> C03, struct group from
                # order-free states -> C04 (and the continuation half of C10)
                step(op, kind, n, "inv", "or", {ordp: t}, grow=grow)
                step(op, kind, n, "cs", "mo", {"C03": t}, grow=grow)
                step(op, kind, n, "cs", "st", {"C04": t, "C10": t}, grow=grow)


_core()


def _more():
    for kind, qmax, tmax in (("pq", 4, 6), ("dq", 3, 5)):
        ordp = "C01" if kind == "pq" else "C02"
        ends = ["hi"] + (["lo"] if kind == "dq" else [])
        for n in range(0, tmax + 1):
            t = QUICK if n <= qmax else THOROUGH
            tq = QUICK if n <= qmax - 1 else THOROUGH
            # C11
            for op in ("push_increase", "push_decrease"):
                step(op, kind, n, "inv", "all", {"C11": t}, grow=1)
                step(op, kind, n, "cs", "st", {"C04": tq}, grow=1)
            # pop_if family
            for e in ends:
                step(f"pop_{e}_if", kind, n, "inv", "or", {ordp: t, "C08": t}, grow=0)
                step(f"pop_{e}_if", kind, n, "cs", "mo", {"C03": tq, "C08": t}, grow=0)
                step(f"pop_{e}_if", kind, n, "cs", "st", {"C04": tq}, grow=0)
                step(f"peek_{e}_mut", kind, n, "inv", "all", {ordp: t, "C12": t}, grow=0)
                step(f"peek_{e}_mut", kind, n, "cs", "st", {"C04": tq}, grow=0)
            step("get_mut", kind, n, "inv", "all", {"C03": tq, "C12": t}, grow=0)
            step("change_priority_item", kind, n, "inv", "all", {"C12": t}, grow=0)
            # retain: one instance per concrete verdict pattern (see step.rs); quick: one
            # pattern per survivor count (reject a prefix / reject a suffix alternating),
            # thorough: every pattern
            for op in ("retain_imm", "retain_mut"):
                for pat in range(0, 1 << n):
                    c = bin(pat).count("1")
                    canon = ((1 << c) - 1) if c % 2 == 0 else (((1 << c) - 1) << (n - c))
                    tp = t if pat == canon else THOROUGH
                    if n > 4 and pat != canon:
                        continue
                    retain(op, kind, n, pat, "inv", "all", {"C08": tp, ordp: tp})
                    if pat == canon:
                        retain(op, kind, n, pat, "cs", "st", {"C04": tq})
            step("clear", kind, n, "cs", "all", {"C16": t, "C04": tq}, grow=1)


_more()


def _iters():
    B = {True: "true", False: "false"}
    for kind, qmax, tmax in (("pq", 4, 6), ("dq", 3, 5)):
        ty = KINDS[kind]["ty"]
        ordp = "C01" if kind == "pq" else "C02"
        for n in range(0, tmax + 1):
            t = QUICK if n <= qmax else THOROUGH
            tq = QUICK if n <= qmax - 1 else THOROUGH
            m = dict(kind=kind, n=n)
            # iter_mut, prefix consumed, dropped: C08 (+ order restored: C01/C02)
            for via in (False, True):
                v = "ref" if via else "dir"
                tt = t if not via else (tq if n in (1, 2) else THOROUGH)
                inst(f"itermut_{kind}_prefix_n{n}_{v}_drop",
                     f"iters::iter_mut_prefix::<{ty}, {n}>(Pre::Inv, Tables::Any, step::ALL, false, {B[via]})",
                     kind, n, {"C08": tt, ordp: tt}, "STEP",
                     meta=dict(op="iter_mut", end="drop", via=v, pre="inv", group="all", **m),
                     covers_required=(n > 1))
            # leaked guard: order unspecified, safety not (C04, C10)
            inst(f"itermut_{kind}_prefix_n{n}_dir_forget",
                 f"iters::iter_mut_prefix::<{ty}, {n}>(Pre::CrashSafe, Tables::Any, step::STRUCT, true, false)",
                 kind, n, {"C04": tq, "C10": tq}, "STEP",
                 meta=dict(op="iter_mut", end="forget", via="dir", pre="cs", group="st", **m),
                 covers_required=(n > 1))
            inst(f"itermut_{kind}_prefix_n{n}_dir_drop_cs",
                 f"iters::iter_mut_prefix::<{ty}, {n}>(Pre::CrashSafe, Tables::Any, step::STRUCT, false, false)",
                 kind, n, {"C04": tq, "C10": tq}, "STEP",
                 meta=dict(op="iter_mut", end="drop", via="dir", pre="cs", group="st", **m),
                 covers_required=(n > 1))
            # protocol: C09
            for via in (False, True):
                v = "ref" if via else "dir"
                tt = t if not via else (tq if n in (1, 2) else THOROUGH)
                inst(f"itermut_{kind}_proto_n{n}_{v}",
                     f"iters::iter_mut_proto::<{ty}, {n}>({B[via]})",
                     kind, n, {"C09": tt}, "ITER",
                     meta=dict(iter="iter_mut", via=v, **m), covers_required=(n > 0 and kind == "dq"))
            # C13
            for via in (False, True):
                v = "ref" if via else "dir"
                tt = t if not via else (tq if n in (1, 2) else THOROUGH)
                inst(f"iter_{kind}_proto_n{n}_{v}", f"iters::iter{'_ref' if via else ''}_proto::<{ty}, {n}>()",
                     kind, n, {"C13": tt, "C03": tt}, "ITER", meta=dict(iter="iter", via=v, **m),
                     covers_required=(n > 1))
            inst(f"intoiter_{kind}_proto_n{n}", f"iters::into_iter_proto::<{ty}, {n}>()",
                 kind, n, {"C13": t, "C03": tq}, "ITER", meta=dict(iter="into_iter", **m),
                 covers_required=(n > 1))
            inst(f"drain_{kind}_proto_n{n}", f"iters::drain_proto::<{ty}, {n}>(true)",
                 kind, n, {"C13": t}, "ITER", meta=dict(iter="drain", exact_size_checked=True, **m),
                 covers_required=(n > 1))
            inst(f"drain_{kind}_yield_n{n}", f"iters::drain_proto::<{ty}, {n}>(false)",
                 kind, n, {"C16": t}, "ITER", meta=dict(iter="drain", exact_size_checked=False, **m),
                 covers_required=(n > 1))
            inst(f"intovec_{kind}_n{n}", f"iters::into_vec::<{ty}, {n}>()",
                 kind, n, {"C03": tq}, "ITER", meta=dict(iter="into_vec", **m))
            # C16
            for forget in (False, True):
                e = "forget" if forget else "drop"
                inst(f"drain_{kind}_n{n}_{e}", f"iters::drain::<{ty}, {n}>(Pre::CrashSafe, {B[forget]})",
                     kind, max(n, 2), {"C16": t, "C04": tq, **({"C10": tq} if forget else {})}, "STEP",
                     meta=dict(op="drain", end=e, pre="cs", **m), covers_required=(n > 0))
        # C06: n chained pops; the min-max heap is the expensive half
        smax_q, smax_t = (4, 6) if kind == "pq" else (3, 5)
        for n in range(0, smax_t + 1):
            t = QUICK if n <= smax_q else THOROUGH
            m = dict(kind=kind, n=n)
            inst(f"sorted_{kind}_iter_n{n}", f"iters::sorted_iter::<{ty}, {n}>()",
                 kind, n, {"C06": t, "C13": t}, "ITER", meta=dict(iter="into_sorted_iter", **m))
            inst(f"sorted_{kind}_vec_desc_n{n}", f"iters::sorted_vec::<{ty}, {n}>(false)",
                 kind, n, {"C06": t}, "ITER", meta=dict(op="into_sorted_vec/desc", **m))
            if kind == "dq":
                inst(f"sorted_{kind}_vec_asc_n{n}", f"iters::sorted_vec::<{ty}, {n}>(true)",
                     kind, n, {"C06": t}, "ITER", meta=dict(op="into_ascending_sorted_vec", **m))


_iters()


def select(prop, tier):
    out = []
    for i in INSTANCES:
        t = i["props"].get(prop)
        if t is None:
            continue
        if tier == THOROUGH or t == QUICK:
            out.append(i)
    return out
