"""Instance table: every solver obligation of the framework (DESIGN.md §3.4/§3.6).

An instance is one Kani proof harness = one call of a generic harness body in
/verif/harness/src with concrete size/kind/group parameters. `./check gen` writes
/verif/harness/src/generated.rs from this table; the runner selects instances per
property and tier.

Tiering rule of thumb (measured, 16 jobs in parallel): a PriorityQueue step costs
10-40 s up to n=4; a DoublePriorityQueue step that goes through up_heapify (push,
change_priority*, remove, pop_max_if, push_increase/decrease) costs 100-170 s from n=2
on with fully symbolic tables and 35-75 s when the obligation is split on the position of
the addressed element. The quick tier is sized to ~3-5 min per property.
"""

QUICK, THOROUGH = "quick", "thorough"

KINDS = {
    "pq": dict(ty="PqI", double=False),
    "dq": dict(ty="DqI", double=True),
    "pqn": dict(ty="PqN", double=False),
    "dqn": dict(ty="DqN", double=True),
    "pqk": dict(ty="PqK", double=False),
    "dqk": dict(ty="DqK", double=True),
    "pqr": dict(ty="PqR", double=False),
    "dqr": dict(ty="DqR", double=True),
}

INSTANCES = []
_names = set()


def inst(name, expr, kind, nmax, props, family, meta=None, memsafe=True, unwind_min=0,
         cost=None, mem=3, covers_required=True, flavor="model"):
    assert name not in _names, name
    _names.add(name)
    props = {p: t for p, t in props.items() if t is not None}
    # an instance that runs in the quick tier of one property counts in the quick tier of every
    # property it serves (the obligation is the same; only the attribution differs)
    if QUICK in props.values():
        props = {p: QUICK for p in props}
    if cost is None:
        cost = (nmax + 1) * (12 if KINDS[kind]["double"] else 3)
    if mem == 3:
        # measured peaks of cbmc (GB): min-max heap steps 2-6 from n = 4, larger heaps more
        dbl = KINDS[kind]["double"]
        if nmax >= 15:
            mem = 16 if dbl else 8
        elif nmax >= 8:
            mem = 10 if dbl else 5
        elif nmax >= 4 and dbl:
            mem = 4        # measured: up to 3.5 GB resident
    INSTANCES.append(dict(
        name=name, expr=expr, kind=kind, nmax=nmax, props=props, family=family,
        meta=meta or {}, memsafe=memsafe, unwind_min=unwind_min, cost=cost, mem=mem,
        covers_required=covers_required, flavor=flavor,
    ))


def tq(n, qmax, tmax=99):
    """tier of an instance of size n: quick up to qmax, thorough up to tmax, else none"""
    if n <= qmax:
        return QUICK
    if n <= tmax:
        return THOROUGH
    return None


GRP = {"all": "step::ALL", "st": "step::STRUCT", "or": "step::ORDER", "mo": "step::MODEL",
       "allp": "step::ALLP", "mop": "step::MODELP"}
PRE = {"inv": "Pre::Inv", "cs": "Pre::CrashSafe"}
TAB = {"any": "Tables::Any", "id": "Tables::Identity"}
B = {True: "true", False: "false"}


def tab_expr(tables):
    if tables.startswith("idk"):
        return f"Tables::IdentityKey({int(tables[3:])})"
    return TAB[tables]


def ordprop(kind):
    return "C02" if KINDS[kind]["double"] else "C01"


def step(op, kind, n, pre, grp, props, tables="any", grow=0, **kw):
    ty = KINDS[kind]["ty"]
    name = f"step_{kind}_{op}_n{n}_{pre}_{grp}" + ("" if tables == "any" else "_" + tables)
    expr = f"step::{op}::<{ty}, {n}>({PRE[pre]}, {tab_expr(tables)}, {GRP[grp]})"
    kw.setdefault("covers_required", n > 0 and tables == "any")
    inst(name, expr, kind, n + grow, props, "STEP",
         meta=dict(op=op, kind=kind, n=n, pre=pre, group=grp, tables=tables), **kw)


def retain(op, kind, n, pat, pre, grp, props, **kw):
    ty = KINDS[kind]["ty"]
    name = f"step_{kind}_{op}_n{n}_p{pat:0{max(n,1)}b}_{pre}_{grp}"
    expr = f"step::{op}::<{ty}, {n}, {pat}>({PRE[pre]}, {TAB['any']}, {GRP[grp]})"
    inst(name, expr, kind, n, props, "STEP",
         meta=dict(op=op, kind=kind, n=n, pre=pre, group=grp, tables="any", verdicts=f"{pat:0{max(n,1)}b}"),
         covers_required=False, **kw)


# heavy = goes through DoublePriorityQueue::up_heapify (two trickle-downs + bubble-up)
HEAVY = {"push", "change_priority", "change_priority_by", "change_priority_item", "remove",
         "push_increase", "push_decrease", "pop_hi_if"}


def qmax_of(kind, op, base_pq, base_dq_light=3, base_dq_heavy=2):
    if not KINDS[kind]["double"]:
        return base_pq
    return base_dq_heavy if op in HEAVY else base_dq_light


# --------------------------------------------------------------------------------------
# STEP: single-element operations
# --------------------------------------------------------------------------------------
def _core():
    core = [("push", 1), ("change_priority", 0), ("change_priority_by", 0), ("remove", 0), ("pop_hi", 0)]
    for kind, tmax in (("pq", 7), ("dq", 5)):
        ops = list(core) + ([("pop_lo", 0)] if kind == "dq" else [])
        op_ = ordprop(kind)
        for op, grow in ops:
            for n in range(0, tmax + 1):
                # order group -> C01/C02; model group from order-free states -> C03;
                # struct group from order-free states -> C04 and the continuation half of C10
                t_or = tq(n, qmax_of(kind, op, 6 if op in ("push", "change_priority", "remove", "pop_hi") else 4), tmax)
                # (min-max heap: n = 3 is the first size with two max-level nodes, one of them in
                # the last slot; 130-165 s per instance)
                t_mo = tq(n, qmax_of(kind, op, 3, 3, 3), tmax - 1)
                t_st = tq(n, qmax_of(kind, op, 3, 3, 3), tmax - 1)
                if kind == "dq" and op == "change_priority_by" and n >= 2:
                    t_or = t_mo = t_st = THOROUGH    # same sift path as change_priority
                step(op, kind, n, "inv", "or", {op_: t_or}, grow=grow)
                step(op, kind, n, "cs", "mo", {"C03": t_mo}, grow=grow)
                if op in ("push", "change_priority", "change_priority_by"):
                    # C12: the item value of the element an update targets stays what it was
                    step(op, kind, n, "cs", "mop", {"C12": t_mo if op != "change_priority_by" else tq(n, 2 if kind == "pq" else 1, tmax - 1)}, grow=grow)
                step(op, kind, n, "cs", "st", {"C04": t_st, "C10": t_st}, grow=grow)


_core()


def _split():
    """identity tables, concrete key: the obligation case-split on the position of the
    addressed element (keys 0..n-1 sit at positions 0..n-1; key n is absent). This is what
    makes the min-max heap affordable at the sizes where its defects live: a max-level
    node has children from n = 4, both max-level nodes have children from n = 6."""
    for kind, sizes_q, sizes_t in (("dq", (3, 4, 6), (5, 7)), ("pq", (), (8,))):
        op_ = ordprop(kind)
        for n in sizes_q + sizes_t:
            for op, grow in (("push", 1), ("change_priority", 0), ("remove", 0)):
                for k in range(0, n + 1):
                    t = QUICK if n in sizes_q else THOROUGH
                    # the quick tier has to fit the time allowed for a check that runs on every
                    # change: a selection of positions (root, a max-level node, a leaf / the new slot)
                    sel_q = {3: {"push": (2, 3), "change_priority": (0, 2), "remove": (0, 2)},
                             4: {"push": (1, 3, 4), "change_priority": (0, 1, 3), "remove": (0, 1, 3)},
                             6: {"push": (5, 6), "change_priority": (1, 5), "remove": (1, 4)}}
                    if n in sel_q and k not in sel_q[n][op]:
                        t = THOROUGH
                    if kind == "dq" and n == 5 and op == "change_priority" and k == 0:
                        t = QUICK
                    step(op, kind, n, "inv", "or", {op_: t}, tables=f"idk{k}", grow=grow,
                         cost=(40 if kind == "dq" else 10) * n)
    # extraction from identity tables (the sift starts at a concrete position): the sizes at
    # which the trickle-down reaches grandchildren of both children of the root
    # Deep sizes. The element that replaces the extracted one comes from the LAST slot, i.e. from
    # one particular subtree; the second swap of a trickle-down round (with the grandchild's
    # parent) can only happen when that parent lies outside this subtree. For pop_min that is
    # possible from n = 13 on (last slot 12 under position 2, grandchildren 3, 4 under position 1 with
    # children 7..10); for pop_max only from n = 20 on (last slot 19
    # under position 4, largest grandchild under position 3 with children at 15, 16): 6 min, 9 GB.
    for n, t in ((5, QUICK), (6, QUICK), (7, QUICK), (8, THOROUGH), (9, THOROUGH), (13, THOROUGH), (15, THOROUGH), (16, THOROUGH), (17, THOROUGH), (18, THOROUGH), (20, THOROUGH)):
        for op in ("pop_lo", "pop_hi", "pop_lo_if"):
            if n >= 13 and op == "pop_lo_if":
                continue
            if n == 13 and op != "pop_lo":
                continue
            tt = t
            if (n, op) in ((13, "pop_lo"), (20, "pop_hi")):
                tt = QUICK
            if n == 8 and op == "pop_lo":
                tt = QUICK
            # sorted consumption is a chain of these extractions (C06)
            step(op, "dq", n, "inv", "or", {"C02": tt, "C08": tt if op == "pop_lo_if" else None,
                                            "C06": tt if op != "pop_lo_if" else None}, tables="id",
                 cost=30 * n if n < 15 else 1500, mem=3 if n < 15 else 10)
    for n, t in ((8, QUICK), (9, THOROUGH), (15, THOROUGH), (16, THOROUGH)):
        step("pop_hi", "pq", n, "inv", "or", {"C01": t, "C06": t}, tables="id", cost=10 * n)
    # two min levels crossed (C02's "sizes >= 16"): position split at n = 15, 16
    for n in (15, 16):
        for op, grow, keys in (("push", 1, (n,)), ("change_priority", 0, (0, 1, 2, 7, n - 1)), ("remove", 0, (0, 3))):
            for k in keys:
                # a new element at slot 15 / 16 rises across two min (or max) levels: 45 s
                step(op, "dq", n, "inv", "or", {"C02": QUICK if op == "push" else THOROUGH}, tables=f"idk{k}", grow=grow,
                     cost=300 if op == "push" else 2500, mem=4 if op == "push" else 16)
    # the max-heap at depth 3..4 (n = 15, 16): a new element at the deepest slot, an update at
    # the root / an inner node / the last leaf, a removal near the root
    for n in (15, 16):
        for op, grow, keys in (("push", 1, (n,)), ("change_priority", 0, (0, 3, n - 1)), ("remove", 0, (0, 1, 7))):
            for k in keys:
                step(op, "pq", n, "inv", "or", {"C01": QUICK if n == 15 else THOROUGH}, tables=f"idk{k}", grow=grow, cost=200, mem=4)
    # lengths 3 to 6 see an update of the ROOT in the quick tier, 7 and 8 in the thorough one (a candidate list of
    # the trickle-down that is wrong for one particular length, seed C02-e: len == 4i + 5)
    # (n = 5, 7: the position split below puts key 0 of change_priority into the quick tier)
    step("change_priority", "dq", 8, "inv", "or", {"C02": THOROUGH}, tables="idk0", cost=320)
    # push_increase / push_decrease at a min-level node that has a child (position 3 of 8) and at
    # a max-level node (position 1)
    for op in ("push_increase", "push_decrease"):
        for k in (1, 3):
            # (4-5 min each: the raise from the min-level node and the lowering of the max-level
            # node in the quick tier, the other two in the thorough one)
            tt = QUICK if (op, k) in (("push_increase", 3), ("push_decrease", 1)) else THOROUGH
            step(op, "dq", 8, "inv", "all", {"C11": tt}, tables=f"idk{k}", grow=1, cost=400)
    # change_priority_by shares the sift path of change_priority but not its entry point
    for n, keys in ((4, (0, 1, 3)), (6, (1, 3))):
        for k in keys:
            step("change_priority_by", "dq", n, "inv", "or", {"C02": QUICK if k == 1 else THOROUGH}, tables=f"idk{k}", cost=40 * n)
    # C11 / C12 on the min-max heap at n = 4: every position, all groups
    for n, t in ((4, QUICK), (6, THOROUGH)):
        for op in ("push_increase", "push_decrease"):
            for k in range(0, n + 1):
                step(op, "dq", n, "inv", "all", {"C11": t}, tables=f"idk{k}", grow=1, cost=45 * n)
    # struct group (C04) on the min-max heap at n = 4 for the operations with unsafe sifts
    for op, grow in (("push", 1), ("remove", 0), ("change_priority", 0)):
        for k in (0, 1, 3, 4):
            step(op, "dq", 4, "cs", "st", {"C04": QUICK if k in (1, 4) or op == "remove" else THOROUGH},
                 tables=f"idk{k}", grow=grow, cost=160)


_split()


def _more():
    for kind, tmax in (("pq", 6), ("dq", 5)):
        op_ = ordprop(kind)
        ends = ["hi"] + (["lo"] if kind == "dq" else [])
        for n in range(0, tmax + 1):
            # C11
            for op in ("push_increase", "push_decrease"):
                t = tq(n, qmax_of(kind, op, 4), tmax)
                step(op, kind, n, "inv", "all", {"C11": t}, grow=1)
                step(op, kind, n, "cs", "mop", {"C12": tq(n, qmax_of(kind, op, 3, 1, 1), tmax)}, grow=1)
                step(op, kind, n, "cs", "st", {"C04": tq(n, qmax_of(kind, op, 2, 1, 1), tmax)}, grow=1)
            # pop_if family, peek_mut family
            for e in ends:
                op = f"pop_{e}_if"
                t = tq(n, qmax_of(kind, op, 4, 3, 4), tmax)
                # (the accepted maximum of a 2- or 3-element min-max heap sits in the LAST slot: the
                # struct group needs these sizes, seed C04-d)
                t2 = tq(n, qmax_of(kind, op, 3, 3, 3), tmax)
                step(op, kind, n, "inv", "or", {op_: t, "C08": t})
                # (the pair the predicate accepted is the pair returned: C03 as much as C08)
                step(op, kind, n, "cs", "mo", {"C03": t if n <= 3 else t2, "C08": t})
                step(op, kind, n, "cs", "st", {"C04": t2})
                op = f"peek_{e}_mut"
                t = tq(n, 4 if kind == "pq" else 3, tmax)
                step(op, kind, n, "inv", "or", {op_: t})
                step(op, kind, n, "inv", "allp", {"C12": t})
                step(op, kind, n, "cs", "st", {"C04": tq(n, 2, tmax)})
            t = tq(n, 3, tmax)
            step("get_mut", kind, n, "inv", "all", {"C03": tq(n, 2, tmax)})
            step("get_mut", kind, n, "inv", "allp", {"C12": t})
            t = tq(n, qmax_of(kind, "change_priority_item", 4), tmax)
            step("change_priority_item", kind, n, "inv", "allp", {"C12": t})
            # retain: one instance per concrete verdict pattern (see step.rs); quick: one
            # pattern per survivor count, thorough: every pattern up to n = 4
            for op in ("retain_imm", "retain_mut"):
                for pat in range(0, 1 << n):
                    c = bin(pat).count("1")
                    canon = ((1 << c) - 1) if c % 2 == 0 else (((1 << c) - 1) << (n - c))
                    if pat != canon and n > 4:
                        continue
                    t = tq(n, 3, tmax) if pat == canon else THOROUGH
                    retain(op, kind, n, pat, "inv", "all", {"C08": t})
                    if pat == canon or n <= 3:
                        retain(op, kind, n, pat, "inv", "or", {op_: t if op == "retain_mut" else THOROUGH})
                    if pat == canon:
                        retain(op, kind, n, pat, "cs", "st", {"C04": tq(n, 2, tmax) if op == "retain_mut" else THOROUGH})
            step("clear", kind, n, "cs", "all", {"C16": tq(n, 3, tmax), "C04": tq(n, 1, tmax)}, grow=1)

    # pre-states with a large unused capacity (len < capacity / 8): behaviour must not depend on it
    for kind in ("pq", "dq"):
        ty = KINDS[kind]["ty"]
        dq = kind == "dq"
        for n in (1, 2):
            sp = "{ gen::set_spare(16); "
            t = QUICK if n == 1 or not dq else THOROUGH
            inst(f"step_{kind}_clear_n{n}_cs_all_s16", sp + f"step::clear::<{ty}, {n}>(Pre::CrashSafe, Tables::Any, step::ALL) }}",
                 kind, n + 1, {"C16": t, "C17": t}, "STEP", meta=dict(op="clear", kind=kind, n=n, pre="cs", group="all", spare_capacity=16),
                 covers_required=False)
            inst(f"drain_{kind}_n{n}_drop_s16", sp + f"iters::drain::<{ty}, {n}>(Pre::CrashSafe, false) }}",
                 kind, max(n, 2), {"C16": t}, "STEP", meta=dict(op="drain", end="drop", kind=kind, n=n, pre="cs", spare_capacity=16),
                 covers_required=False)
            for op, grow, props in (("push", 1, {"C03": t, "C17": t}), ("pop_hi", 0, {"C03": t}), ("remove", 0, {"C03": THOROUGH if dq else t})):
                inst(f"step_{kind}_{op}_n{n}_cs_mo_s16", sp + f"step::{op}::<{ty}, {n}>(Pre::CrashSafe, Tables::Any, step::MODEL) }}",
                     kind, n + grow, props, "STEP", meta=dict(op=op, kind=kind, n=n, pre="cs", group="mo", spare_capacity=16),
                     covers_required=False)
            inst(f"itermut_{kind}_prefix_n{n}_dir_drop_s16",
                 sp + f"iters::iter_mut_prefix::<{ty}, {n}>(Pre::Inv, Tables::Any, step::ALL, false, false) }}",
                 kind, n, {"C08": t}, "STEP", meta=dict(op="iter_mut", end="drop", kind=kind, n=n, pre="inv", group="all", spare_capacity=16),
                 covers_required=False)
            inst(f"step_{kind}_retain_mut_n{n}_p{(1 << n) - 2:0{n}b}_inv_all_s16",
                 sp + f"step::retain_mut::<{ty}, {n}, {(1 << n) - 2}>(Pre::Inv, Tables::Any, step::ALL) }}",
                 kind, n, {"C08": t}, "STEP", meta=dict(op="retain_mut", kind=kind, n=n, pre="inv", group="all", spare_capacity=16),
                 covers_required=False)


_more()


def _iters():
    for kind, tmax in (("pq", 6), ("dq", 5)):
        ty = KINDS[kind]["ty"]
        op_ = ordprop(kind)
        for n in range(0, tmax + 1):
            t = tq(n, 4 if kind == "pq" else 3, tmax)
            t1 = tq(n, 3 if kind == "pq" else 2, tmax)
            m = dict(kind=kind, n=n)
            # iter_mut, prefix consumed, dropped: C08 (+ order restored: C01/C02, payload: C12)
            for via in (False, True):
                v = "ref" if via else "dir"
                tt = t if not via else (QUICK if n == 2 else THOROUGH)
                inst(f"itermut_{kind}_prefix_n{n}_{v}_drop",
                     f"iters::iter_mut_prefix::<{ty}, {n}>(Pre::Inv, Tables::Any, step::ALL, false, {B[via]})",
                     kind, n, {"C08": tt}, "STEP",
                     meta=dict(op="iter_mut", end="drop", via=v, pre="inv", group="all", **m),
                     covers_required=(n > 1))
                if not via:
                    inst(f"itermut_{kind}_prefix_n{n}_dir_drop_or",
                         f"iters::iter_mut_prefix::<{ty}, {n}>(Pre::Inv, Tables::Any, step::ORDER, false, false)",
                         kind, n, {op_: tt}, "STEP",
                         meta=dict(op="iter_mut", end="drop", via=v, pre="inv", group="or", **m),
                         covers_required=(n > 1))
                if not via:
                    inst(f"itermut_{kind}_prefix_n{n}_dir_drop_pay",
                         f"iters::iter_mut_prefix::<{ty}, {n}>(Pre::Inv, Tables::Any, step::ALLP, false, false)",
                         kind, n, {"C12": t1}, "STEP",
                         meta=dict(op="iter_mut", end="drop", via=v, pre="inv", group="allp", **m),
                         covers_required=(n > 1))
            # leaked guard: order unspecified, safety not (C04, C10)
            inst(f"itermut_{kind}_prefix_n{n}_dir_forget",
                 f"iters::iter_mut_prefix::<{ty}, {n}>(Pre::CrashSafe, Tables::Any, step::STRUCT, true, false)",
                 kind, n, {"C04": t1, "C10": t1}, "STEP",
                 meta=dict(op="iter_mut", end="forget", via="dir", pre="cs", group="st", **m),
                 covers_required=(n > 1))
            inst(f"itermut_{kind}_prefix_n{n}_dir_drop_cs",
                 f"iters::iter_mut_prefix::<{ty}, {n}>(Pre::CrashSafe, Tables::Any, step::STRUCT, false, false)",
                 kind, n, {"C04": t1, "C10": t1}, "STEP",
                 meta=dict(op="iter_mut", end="drop", via="dir", pre="cs", group="st", **m),
                 covers_required=(n > 1))
            # protocol: C09
            for via in (False, True):
                v = "ref" if via else "dir"
                tt = t if not via else (QUICK if n in (1, 2) else THOROUGH)
                inst(f"itermut_{kind}_proto_n{n}_{v}",
                     f"iters::iter_mut_proto::<{ty}, {n}>({B[via]})",
                     kind, n, {"C09": tt}, "ITER",
                     meta=dict(iter="iter_mut", via=v, **m), covers_required=(n > 0 and kind == "dq"))
            # C13
            for via in (False, True):
                v = "ref" if via else "dir"
                tt = t if not via else (QUICK if n in (1, 2) else THOROUGH)
                inst(f"iter_{kind}_proto_n{n}_{v}", f"iters::iter{'_ref' if via else ''}_proto::<{ty}, {n}>()",
                     kind, n, {"C13": tt, "C03": tt if not via else None}, "ITER", meta=dict(iter="iter", via=v, **m),
                     covers_required=(n > 1))
            inst(f"intoiter_{kind}_proto_n{n}", f"iters::into_iter_proto::<{ty}, {n}>()",
                 kind, n, {"C13": t, "C03": t1}, "ITER", meta=dict(iter="into_iter", **m),
                 covers_required=(n > 1))
            inst(f"drain_{kind}_proto_n{n}", f"iters::drain_proto::<{ty}, {n}>(true)",
                 kind, n, {"C13": t}, "ITER", meta=dict(iter="drain", exact_size_checked=True, **m),
                 covers_required=(n > 1))
            inst(f"drain_{kind}_yield_n{n}", f"iters::drain_proto::<{ty}, {n}>(false)",
                 kind, n, {"C16": t}, "ITER", meta=dict(iter="drain", exact_size_checked=False, **m),
                 covers_required=(n > 1))
            inst(f"intovec_{kind}_n{n}", f"iters::into_vec::<{ty}, {n}>()",
                 kind, n, {"C03": t1}, "ITER", meta=dict(iter="into_vec", **m))
            # C16
            for forget in (False, True):
                e = "forget" if forget else "drop"
                inst(f"drain_{kind}_n{n}_{e}", f"iters::drain::<{ty}, {n}>(Pre::CrashSafe, {B[forget]})",
                     kind, max(n, 2), {"C16": t, "C04": tq(n, 1, tmax), "C10": t1 if forget else None}, "STEP",
                     meta=dict(op="drain", end=e, pre="cs", **m), covers_required=(n > 0))
        # the same protocols with the skipping methods nth / nth_back in the program (iterator
        # types may override them; adaptors such as skip and step_by are built on them)
        for n in (1, 2, 3):
            tn = tq(n, 3 if kind == "pq" else 2, 3)
            m = dict(kind=kind, n=n, program="next / next_back / nth(j) / nth_back(j), j <= 2")
            inst(f"itermut_{kind}_proto_n{n}_nth", f"{{ iters::with_nth(); iters::iter_mut_proto::<{ty}, {n}>(false) }}",
                 kind, n, {"C09": tn}, "ITER", meta=dict(iter="iter_mut", **m), covers_required=False)
            inst(f"iter_{kind}_proto_n{n}_nth", f"{{ iters::with_nth(); iters::iter_proto::<{ty}, {n}>() }}",
                 kind, n, {"C13": tn}, "ITER", meta=dict(iter="iter", **m), covers_required=False)
            inst(f"intoiter_{kind}_proto_n{n}_nth", f"{{ iters::with_nth(); iters::into_iter_proto::<{ty}, {n}>() }}",
                 kind, n, {"C13": tn}, "ITER", meta=dict(iter="into_iter", **m), covers_required=False)
            inst(f"drain_{kind}_proto_n{n}_nth", f"{{ iters::with_nth(); iters::drain_proto::<{ty}, {n}>(true) }}",
                 kind, n, {"C13": tn, "C16": THOROUGH}, "ITER", meta=dict(iter="drain", **m), covers_required=False)
            # (a symbolic program with nth over a sorted iterator -- every skipped element a pop --
            # does not get through the solver: one skipping call with a concrete j instead)
            for j in sorted({0, n - 1, n, n + 1}):
                for back in ((False, True) if kind == "dq" else (False,)):
                    inst(f"sorted_{kind}_skip_n{n}_j{j}{'_back' if back else ''}",
                         f"iters::sorted_skip::<{ty}, {n}, {j}>({B[back]})", kind, n,
                         {"C13": (tn if j in (n - 1, n) and not (kind == "dq" and n >= 2 and (back or j == n)) else THOROUGH),
                          "C06": (tn if j == n and not (kind == "dq" and n >= 2) else THOROUGH)}, "ITER",
                         meta=dict(iter="into_sorted_iter", kind=kind, n=n, call=f"nth{'_back' if back else ''}({j}) then next()"),
                         covers_required=False, cost=n * n * (25 if kind == "dq" else 5))
        # C06: n chained pops; the min-max heap is the expensive half
        smax_q, smax_t = (4, 6) if kind == "pq" else (3, 5)
        for n in range(0, smax_t + 1):
            t = tq(n, smax_q, smax_t)
            m = dict(kind=kind, n=n)
            inst(f"sorted_{kind}_iter_n{n}", f"iters::sorted_iter::<{ty}, {n}>(Tables::Any)",
                 kind, n, {"C06": t, "C13": tq(n, 2, 3)}, "ITER", meta=dict(iter="into_sorted_iter", **m),
                 cost=n * n * (20 if kind == "dq" else 4))
            inst(f"sorted_{kind}_vec_desc_n{n}", f"iters::sorted_vec::<{ty}, {n}>(false, Tables::Any)",
                 kind, n, {"C06": t}, "ITER", meta=dict(op="into_sorted_vec/desc", **m),
                 cost=n * n * (20 if kind == "dq" else 4))
            if kind == "dq":
                inst(f"sorted_{kind}_vec_asc_n{n}", f"iters::sorted_vec::<{ty}, {n}>(true, Tables::Any)",
                     kind, n, {"C06": t}, "ITER", meta=dict(op="into_ascending_sorted_vec", **m),
                     cost=n * n * 10)


    # the first two / three steps of a sorted consumption, symbolic ends, identity tables
    for kind, specs in (("dq", ((4, 2, THOROUGH), (6, 2, QUICK), (7, 2, QUICK), (7, 3, THOROUGH), (8, 2, THOROUGH), (9, 2, THOROUGH))),
                        ("pq", ((5, 2, QUICK), (8, 2, QUICK), (9, 3, THOROUGH)))):
        ty = KINDS[kind]["ty"]
        for n, k, t in specs:
            inst(f"sorted_{kind}_steps_n{n}_k{k}_id", f"iters::sorted_steps::<{ty}, {n}, {k}>(Tables::Identity)",
                 kind, n, {"C06": t}, "ITER", meta=dict(iter="into_sorted_iter", steps=k, kind=kind, n=n, tables="identity"),
                 cost=n * k * (30 if kind == "dq" else 5), mem=6)
    # sorted consumption from identity tables at the sizes where the trickle-down reaches the
    # grandchildren of both children of the root
    for kind, sizes in (("dq", ((5, QUICK), (6, THOROUGH), (7, THOROUGH))), ("pq", ((5, QUICK), (6, QUICK), (7, THOROUGH), (8, THOROUGH)))):
        ty = KINDS[kind]["ty"]
        for n, t in sizes:
            # (the DoublePriorityQueue iterator under every interleaving takes 15 min at n = 6
            # and an hour at n = 7: n = 7 is left to the one-directional vectors)
            inst(f"sorted_{kind}_iter_n{n}_id", f"iters::sorted_iter::<{ty}, {n}>(Tables::Identity)",
                 kind, n, {"C06": (t if n > 5 else THOROUGH) if not (kind == "dq" and n >= 7) else None}, "ITER", meta=dict(iter="into_sorted_iter", kind=kind, n=n, tables="identity"),
                 cost=n * n * (40 if kind == "dq" else 6), mem=8)
            inst(f"sorted_{kind}_vec_desc_n{n}_id", f"iters::sorted_vec::<{ty}, {n}>(false, Tables::Identity)",
                 kind, n, {"C06": t}, "ITER", meta=dict(op="into_sorted_vec/desc", kind=kind, n=n, tables="identity"),
                 cost=n * n * (40 if kind == "dq" else 6), mem=8)
            if kind == "dq":
                inst(f"sorted_{kind}_vec_asc_n{n}_id", f"iters::sorted_vec::<{ty}, {n}>(true, Tables::Identity)",
                     kind, n, {"C06": t}, "ITER", meta=dict(op="into_ascending_sorted_vec", kind=kind, n=n, tables="identity"),
                     cost=n * n * 30, mem=8)


_iters()


# --------------------------------------------------------------------------------------
# bulk operations (C07) and BASE
# --------------------------------------------------------------------------------------
def seq_of(keys):
    v = 0
    for j, k in enumerate(keys):
        assert 0 <= k < 16
        v |= k << (4 * j)
    return v


HINTS = {"none": "bulk::H_NONE", "exact": "bulk::H_EXACT", "upper": "bulk::H_UPPER",
         "lower": "bulk::H_LOWER", "far": "bulk::H_FAR", "max": "bulk::H_MAX", "lomax": "bulk::H_LOMAX"}


def key_patterns(n, m):
    """concrete key sequences of m pairs for a receiver over keys 0..n: 'a','b' are new
    keys, 'x','y' existing ones; returns (tag, [keys])"""
    a, b = n, n + 1
    x, y = 0, max(n - 1, 0)
    pats = {1: [("a", [a])], 2: [("ab", [a, b]), ("aa", [a, a])], 3: [("aba", [a, b, a])]}
    if n > 0:
        pats[1].append(("x", [x]))
        pats[2] += [("xa", [x, a]), ("yy", [y, y])]
        pats[3] += [("axa", [a, x, a]), ("xyx", [x, y, x])]
    return pats[m]


def _bulk():
    for kind in ("pq", "dq"):
        ty = KINDS[kind]["ty"]
        op_ = ordprop(kind)
        dq = kind == "dq"
        nq = 3 if not dq else 1
        nt = 5 if not dq else 4
        # ---- extend, push strategy (receiver too small for a rebuild to be chosen)
        for n in range(0, nt + 1):
            for m in (1, 2, 3):
                for tag, keys in key_patterns(n, m):
                    for hname in ("none", "exact", "upper", "lower", "far", "max", "lomax"):
                        if n > nq + 1 and not (m == 2 and hname in ("none", "exact", "far")):
                            continue
                        quick = n <= nq and (
                            (m == 2 and hname == "none" and tag in ("xa", "aa", "ab")) or
                            (m == 2 and hname == "exact" and tag in ("yy", "ab")) or
                            (m == 1 and tag == "a" and n <= 1 and hname in ("upper", "far", "max", "lomax")) or
                            (m == 3 and hname == "lower" and tag in ("aba", "axa") and not dq))
                        t = QUICK if quick else THOROUGH
                        inst(f"extend_{kind}_n{n}_m{m}_{tag}_{hname}",
                             f"bulk::extend::<{ty}, {n}, {m}, {seq_of(keys)}>(Pre::Inv, Tables::Any, step::ALL, {HINTS[hname]})",
                             kind, n + m, {"C07": t}, "STEP",
                             meta=dict(op="extend", kind=kind, n=n, m=m, keys=keys, hint=hname, pre="inv", group="all"),
                             covers_required=False, cost=(n + m) * m * (25 if dq else 4))
                        if hname in ("none", "exact") and m == 2 and tag in ("xa", "ab", "aa"):
                            inst(f"extend_{kind}_n{n}_m{m}_{tag}_{hname}_or",
                                 f"bulk::extend::<{ty}, {n}, {m}, {seq_of(keys)}>(Pre::Inv, Tables::Any, step::ORDER, {HINTS[hname]})",
                                 kind, n + m, {op_: QUICK if (n <= nq and hname == "none" and tag in ("xa", "ab")) else THOROUGH}, "STEP",
                                 meta=dict(op="extend", kind=kind, n=n, m=m, keys=keys, hint=hname, pre="inv", group="or"),
                                 covers_required=False, cost=(n + m) * m * (25 if dq else 4))
            if n <= nq:
                inst(f"extend_{kind}_n{n}_m2_cs",
                     f"bulk::extend::<{ty}, {n}, 2, {seq_of([n, 0 if n else n + 1])}>(Pre::CrashSafe, Tables::Any, step::STRUCT, bulk::H_EXACT)",
                     kind, n + 2, {"C04": QUICK if n <= 1 else THOROUGH}, "STEP",
                     meta=dict(op="extend", kind=kind, n=n, m=2, hint="exact", pre="cs", group="st"),
                     covers_required=False, cost=(n + 2) * 2 * (25 if dq else 4))
        # ---- extend, rebuild strategy: receiver of 8 (identity tables), hint far above
        for tag, keys in (("ab", [8, 9]), ("xa", [3, 8]), ("xx", [5, 5]), ("aa", [8, 8])):
            for hname in ("far", "max"):
                # (min-max heap: 5 min; the pattern in which nothing is new leaves the length unchanged)
                t = QUICK if (hname == "far" and ((not dq and tag in ("xa", "xx")) or (dq and tag == "xx"))) else THOROUGH
                inst(f"extend_{kind}_n8_m2_{tag}_{hname}_rebuild",
                     f"bulk::extend::<{ty}, 8, 2, {seq_of(keys)}>(Pre::Inv, Tables::Identity, step::ALL, {HINTS[hname]})",
                     kind, 10, {"C07": t}, "STEP",
                     meta=dict(op="extend", kind=kind, n=8, m=2, keys=keys, hint=hname, strategy="rebuild", tables="identity"),
                     covers_required=False, cost=900 if dq else 200, mem=7 if dq else 5)
                if hname == "far" and tag == "xa":
                    inst(f"extend_{kind}_n8_m2_{tag}_{hname}_rebuild_or",
                         f"bulk::extend::<{ty}, 8, 2, {seq_of(keys)}>(Pre::Inv, Tables::Identity, step::ORDER, {HINTS[hname]})",
                         kind, 10, {op_: QUICK if not dq else THOROUGH}, "STEP",
                         meta=dict(op="extend", kind=kind, n=8, m=2, keys=keys, hint=hname, strategy="rebuild", tables="identity", group="or"),
                         covers_required=False, cost=900 if dq else 200, mem=7 if dq else 5)
            t = QUICK if (not dq and tag in ("xa", "xx", "aa")) else THOROUGH
            # (the stored item value is compared as well: with the push strategy keeping the item
            # first inserted, C12 at small sizes, the twin carries that over to the rebuild strategy)
            inst(f"extend_{kind}_n8_m2_{tag}_twin",
                 f"bulk::extend_twin::<{ty}, 8, 2, {seq_of(keys)}>(Tables::Identity, bulk::H_NONE, bulk::H_FAR)",
                 kind, 10, {"C07": t, "C12": t if tag in ("xa", "aa") else None}, "STEP",
                 meta=dict(op="extend twice, hint none vs far", kind=kind, n=8, m=2, keys=keys, tables="identity"),
                 covers_required=False, cost=1000 if dq else 300, mem=7 if dq else 5)
        # ---- FromIterator / From<Vec>
        for l in range(0, 5):
            seqs = {0: [("e", [])], 1: [("a", [1])], 2: [("ab", [1, 2]), ("aa", [1, 1])],
                    3: [("abc", [1, 2, 3]), ("aba", [1, 2, 1]), ("aab", [1, 1, 2])],
                    4: [("abab", [1, 2, 1, 2]), ("abcd", [4, 3, 2, 1]), ("abca", [1, 2, 3, 1])]}[l]
            for tag, keys in seqs:
                t = tq(l, 3, 4)
                inst(f"fromvec_{kind}_l{l}_{tag}", f"bulk::from_vec::<{ty}, {l}, {seq_of(keys)}>(step::ALL)",
                     kind, l, {"C07": t}, "BASE",
                     meta=dict(ctor="From<Vec>", kind=kind, len=l, keys=keys), covers_required=False)
                inst(f"fromvec_{kind}_l{l}_{tag}_or", f"bulk::from_vec::<{ty}, {l}, {seq_of(keys)}>(step::ORDER)",
                     kind, l, {op_: t}, "BASE",
                     meta=dict(ctor="From<Vec>", kind=kind, len=l, keys=keys, group="or"), covers_required=False)
                inst(f"fromvec_{kind}_l{l}_{tag}_st", f"bulk::from_vec::<{ty}, {l}, {seq_of(keys)}>(step::STRUCT)",
                     kind, l, {"C04": t}, "BASE",
                     meta=dict(ctor="From<Vec>", kind=kind, len=l, keys=keys, group="st"), covers_required=False)
                for hname in ("none", "exact", "upper", "lower", "far", "max"):
                    t2 = QUICK if (l in (2, 3) and hname in ("none", "exact")) or (l == 1 and hname in ("far", "max", "upper", "lower")) else THOROUGH
                    inst(f"fromiter_{kind}_l{l}_{tag}_{hname}",
                         f"bulk::from_iter::<{ty}, {l}, {seq_of(keys)}>(step::ALL, {HINTS[hname]})",
                         kind, l, {"C07": t2}, "BASE",
                         meta=dict(ctor="FromIterator", kind=kind, len=l, keys=keys, hint=hname), covers_required=False)
                    if hname == "exact":
                        inst(f"fromiter_{kind}_l{l}_{tag}_{hname}_or",
                             f"bulk::from_iter::<{ty}, {l}, {seq_of(keys)}>(step::ORDER, {HINTS[hname]})",
                             kind, l, {op_: t2}, "BASE",
                             meta=dict(ctor="FromIterator", kind=kind, len=l, keys=keys, hint=hname, group="or"), covers_required=False)
                    if hname == "none":
                        inst(f"fromiter_{kind}_l{l}_{tag}_{hname}_st",
                             f"bulk::from_iter::<{ty}, {l}, {seq_of(keys)}>(step::STRUCT, {HINTS[hname]})",
                             kind, l, {"C04": t2}, "BASE",
                             meta=dict(ctor="FromIterator", kind=kind, len=l, keys=keys, hint=hname, group="st"), covers_required=False)
        for w, what in enumerate(("new", "with_capacity(0)", "with_capacity(1)", "with_capacity(5)")):
            inst(f"ctor_{kind}_{w}", f"bulk::ctor::<{ty}>({w})", kind, 1,
                 {op_: QUICK, "C04": QUICK, "C17": QUICK, "C03": QUICK}, "BASE", meta=dict(ctor=what, kind=kind), covers_required=False)
        for w, what in enumerate(("new()", "with_capacity(0)", "with_capacity(5)")):
            inst(f"ctor_{kind}_std_{w}", f"bulk::ctor_std::<{KINDS[kind + 'r']['ty']}>({w})", kind + "r", 2,
                 {op_: QUICK, "C04": QUICK, "C17": QUICK, "C18": QUICK}, "BASE",
                 meta=dict(ctor=what, kind=kind, hasher="std RandomState (the default randomly keyed hasher)"), covers_required=False)
        # ---- append
        for n in range(0, nt + 1):
            for m in (0, 1, 2, 3):
                if n + m > nt + 1:
                    continue
                pats = [("new", list(range(n, n + m)))]
                if n > 0 and m > 0:
                    pats.append(("clash", [0] + list(range(n, n + m - 1))))
                for tag, keys in pats:
                    t = QUICK if (n <= (3 if not dq else 2) and m <= 2 and n + m <= (4 if not dq else 3)) else THOROUGH
                    inst(f"append_{kind}_n{n}_m{m}_{tag}",
                         f"bulk::append::<{ty}, {n}, {m}, {seq_of(keys)}>(Pre::Inv, Tables::Any, step::ALL)",
                         kind, n + m, {"C07": t}, "STEP",
                         meta=dict(op="append", kind=kind, n=n, m=m, other_keys=keys, pre="inv", group="all"),
                         covers_required=False, cost=(n + m) * (15 if dq else 4))
                    if tag == "new" or m == 2:
                        inst(f"append_{kind}_n{n}_m{m}_{tag}_or",
                             f"bulk::append::<{ty}, {n}, {m}, {seq_of(keys)}>(Pre::Inv, Tables::Any, step::ORDER)",
                             kind, n + m, {op_: t}, "STEP",
                             meta=dict(op="append", kind=kind, n=n, m=m, other_keys=keys, pre="inv", group="or"),
                             covers_required=False, cost=(n + m) * (15 if dq else 4))
            # contents only (C03): no operation alters an element it does not target
            for m in (1, 2):
                if n > 0 and n <= 2 and not (dq and n + m > 2):
                    keys = [0] + list(range(n, n + m - 1))
                    inst(f"append_{kind}_n{n}_m{m}_clash_mo",
                         f"bulk::append::<{ty}, {n}, {m}, {seq_of(keys)}>(Pre::CrashSafe, Tables::Any, step::MODEL)",
                         kind, n + m, {"C03": QUICK}, "STEP",
                         meta=dict(op="append", kind=kind, n=n, m=m, other_keys=keys, pre="cs", group="mo"),
                         covers_required=False, cost=(n + m) * (15 if dq else 4))
            if n <= 2:
                inst(f"append_{kind}_n{n}_m2_cs",
                     f"bulk::append::<{ty}, {n}, 2, {seq_of([0 if n else 5, n + 1])}>(Pre::CrashSafe, Tables::Any, step::STRUCT)",
                     kind, n + 2, {"C04": QUICK if n <= 1 else THOROUGH}, "STEP",
                     meta=dict(op="append", kind=kind, n=n, m=2, pre="cs", group="st"), covers_required=False)
        # ---- conversion to the other kind
        for n in range(0, nt + 2):
            # source kind `kind`; the cost is the heap_build of the *other* kind
            other = "C02" if kind == "pq" else "C01"
            t = tq(n, 4 if dq else 3, 9)
            inst(f"convert_{kind}_n{n}", f"bulk::convert::<{ty}, {n}>(Pre::Inv, Tables::Any, step::ALL)",
                 kind if dq else "dq", n, {"C07": t}, "STEP",
                 meta=dict(op="From<other kind>", source=kind, n=n, pre="inv", group="all"),
                 covers_required=False, cost=n * (4 if dq else 20))
            inst(f"convert_{kind}_n{n}_or", f"bulk::convert::<{ty}, {n}>(Pre::Inv, Tables::Any, step::ORDER)",
                 kind if dq else "dq", n, {other: t}, "STEP",
                 meta=dict(op="From<other kind>", source=kind, n=n, pre="inv", group="or"),
                 covers_required=False, cost=n * (4 if dq else 20))
            inst(f"convert_{kind}_n{n}_cs", f"bulk::convert::<{ty}, {n}>(Pre::CrashSafe, Tables::Any, step::STRUCT)",
                 kind if dq else "dq", n, {"C04": tq(n, 2, 9)}, "STEP",
                 meta=dict(op="From<other kind>", source=kind, n=n, pre="cs", group="st"),
                 covers_required=False, cost=n * (4 if dq else 20))


_bulk()


# --------------------------------------------------------------------------------------
# C14, C17
# --------------------------------------------------------------------------------------
def _misc():
    RES = {"reserve": "misc::R_RESERVE", "reserve_exact": "misc::R_RESERVE_EXACT", "try_reserve": "misc::R_TRY",
           "try_reserve_exact": "misc::R_TRY_EXACT", "shrink_to_fit": "misc::R_SHRINK"}
    for kind in ("pq", "dq"):
        ty = KINDS[kind]["ty"]
        dq = kind == "dq"
        for n in range(0, 5):
            for m in range(0, 5):
                if abs(n - m) > 1 or n + m > 7:
                    continue
                t = QUICK if (n == m and n <= 3) or (n + m == 3) else THOROUGH
                inst(f"eq_{kind}_n{n}_m{m}", f"misc::eq2::<{ty}, {n}, {m}>()", kind, max(n, m), {"C14": t}, "EQ",
                     meta=dict(op="==", kind=kind, n=n, m=m), covers_required=(n == m and n > 0))
            for m2 in sorted({n, max(n - 1, 0)}):
                if n > 3:
                    continue
                inst(f"clonefrom_{kind}_n{n}_m{m2}", f"misc::clone_from::<{ty}, {n}, {m2}>()", kind, n, {"C14": tq(n, 2 if not dq else 2, 3)}, "EQ",
                     meta=dict(op="clone_from", kind=kind, n=n, destination_len=m2), covers_required=False, cost=(n + 1) * (10 if dq else 4))
            t = tq(n, 3 if not dq else 1, 4)
            inst(f"clone_{kind}_n{n}", f"misc::clone_indep::<{ty}, {n}>()", kind, n + 1, {"C14": t}, "EQ",
                 meta=dict(op="clone", kind=kind, n=n), covers_required=False, cost=(n + 1) * (40 if dq else 6))
        for n in (0, 1, 2, 3, 4):
            for opn, opx in RES.items():
                amounts = [("0", "0", False), ("1", "1", False), ("5", "5", False)] if opn != "shrink_to_fit" else [("x", "0", False)]
                if opn.startswith("try"):
                    # requests whose size in bytes cannot be represented for any element type
                    amounts += [("max", "usize::MAX", True), ("imax", "isize::MAX as usize", True)]
                for tag, amt, huge in amounts:
                    quick = (n in (0, 2) and tag in ("1", "5", "x", "max", "imax")) and not (dq and n == 2 and tag in ("1",))
                    t = QUICK if quick else THOROUGH
                    inst(f"cap_{kind}_{opn}_n{n}_{tag}",
                         f"misc::capacity::<{ty}, {n}>({opx}, {amt}, {B[huge]})", kind, n + 1, {"C17": t}, "STEP",
                         meta=dict(op=opn, kind=kind, n=n, additional=amt), covers_required=False,
                         cost=(n + 1) * (40 if dq else 6), unwind_min=n + 10)
                    if n in (1, 3) and tag in ("1", "5", "x"):
                        # pre-states with no / more unused capacity than the default two slots
                        for sp in (0, 4):
                            inst(f"cap_{kind}_{opn}_n{n}_{tag}_s{sp}",
                                 f"misc::capacity_spare::<{ty}, {n}>({opx}, {amt}, {B[huge]}, {sp})", kind, n + 1,
                                 {"C17": QUICK if (n == 1 and not (dq and tag == "1")) else THOROUGH}, "STEP",
                                 meta=dict(op=opn, kind=kind, n=n, additional=amt, spare_capacity=sp), covers_required=False,
                                 cost=(n + 1) * (40 if dq else 6), unwind_min=n + 10)


_misc()


# --------------------------------------------------------------------------------------
# C15
# --------------------------------------------------------------------------------------
def _serde():
    for src in ("pq", "dq"):
        for dst in ("pq", "dq"):
            s, d = KINDS[src]["ty"], KINDS[dst]["ty"]
            for n in range(0, 5):
                for hint in (True, False):
                    t = QUICK if (n <= 3 and hint) or (n == 2 and not hint) else THOROUGH
                    inst(f"serde_rt_{src}_{dst}_n{n}_{'hint' if hint else 'nohint'}",
                         f"serde_h::roundtrip::<{s}, {d}, {n}>({B[hint]})", dst, n, {"C15": t}, "SERDE",
                         meta=dict(op="serialize->deserialize", source=src, target=dst, n=n, size_hint=hint),
                         covers_required=False, cost=n * (20 if dst == "dq" else 5))
    # the size from which a rebuild in the wrong order (top-down) shows
    for src, dst, t in (("dq", "dq", QUICK), ("pq", "pq", QUICK), ("pq", "dq", THOROUGH), ("dq", "pq", THOROUGH)):
        s_, d_ = KINDS[src]["ty"], KINDS[dst]["ty"]
        inst(f"serde_rt_{src}_{dst}_n8_hint", f"serde_h::roundtrip::<{s_}, {d_}, 8>(true)", dst, 8, {"C15": t}, "SERDE",
             meta=dict(op="serialize->deserialize", source=src, target=dst, n=8, size_hint=True),
             covers_required=False, cost=600 if dst == "dq" else 150, mem=12 if dst == "dq" else 5)
    for dst in ("pq", "dq"):
        d = KINDS[dst]["ty"]
        for l, seqs in {0: [("e", [])], 1: [("a", [1])], 2: [("ab", [1, 2]), ("aa", [3, 3])],
                        3: [("abc", [1, 2, 3]), ("aba", [1, 2, 1]), ("aab", [2, 2, 1]), ("aaa", [4, 4, 4])],
                        4: [("abab", [1, 2, 1, 2]), ("abca", [1, 2, 3, 1]), ("aabb", [1, 1, 2, 2])]}.items():
            for tag, keys in seqs:
                for hint in (True, False):
                    t = QUICK if l <= 3 and (hint or tag in ("aa", "aba")) else THOROUGH
                    inst(f"serde_any_{dst}_l{l}_{tag}_{'hint' if hint else 'nohint'}",
                         f"serde_h::arbitrary::<{d}, {l}, {seq_of(keys)}>({B[hint]})", dst, l, {"C15": t}, "SERDE",
                         meta=dict(op="deserialize pair sequence", target=dst, len=l, keys=keys, size_hint=hint),
                         covers_required=False)


_serde()


# --------------------------------------------------------------------------------------
# C05
# --------------------------------------------------------------------------------------
def _cost():
    OPS = ["push", "change", "change_by", "remove", "pop_hi", "pop_lo", "pop_hi_if", "pop_lo_if",
           "push_inc", "push_dec", "peek_hi", "peek_lo", "lookups", "rebuild"]
    for kind in ("pq", "dq"):
        ty = KINDS[kind]["ty"]
        dq = kind == "dq"
        for opi, op in enumerate(OPS):
            if not dq and op in ("pop_lo", "pop_lo_if", "peek_lo"):
                continue
            heavy = op in ("push", "change", "change_by", "remove", "pop_hi_if", "push_inc", "push_dec")
            light_q = op in ("peek_hi", "peek_lo", "lookups")
            for n in (1, 2, 3, 4, 5, 6, 7, 8):
                if dq:
                    t = tq(n, 2 if heavy else 3, 5)
                    if light_q:
                        t = tq(n, 4, 8)
                else:
                    t = tq(n, 4 if op not in ("change_by", "push_dec") else 2, 8)
                    if op in ("push", "change", "pop_hi", "pop_hi_if", "remove") and n in (7, 8):
                        t = QUICK            # sizes at which the budget separates log from linear
                    if light_q:
                        t = tq(n, 4, 8)
                if t is None:
                    continue
                grow = 1 if op in ("push", "push_inc", "push_dec") else 0
                inst(f"cost_{kind}_{op}_n{n}", f"cost::cost::<{ty}, {n}>({opi}, Tables::Any)", kind, n + grow,
                     {"C05": t}, "COST", meta=dict(op=op, kind=kind, n=n, tables="any"), covers_required=False,
                     cost=(n + 1) * (40 if dq and heavy else 8))
            # identity tables, position split, at the sizes where two min levels are crossed
            if op in ("push", "change", "remove", "pop_hi", "pop_lo"):
                for n in (15, 16):
                    keys = [0, 1, 3, 7, n - 1, n] if op in ("push", "change", "remove") else [0]
                    if dq:
                        keys = {"push": [n], "change": [0, n - 1], "remove": [3]}.get(op, [0]) if n == 16 else []
                    for k in keys:
                        grow = 1 if op == "push" else 0
                        # the max-heap at n = 15 costs 20-50 s per position: quick
                        tt = QUICK if (not dq and n == 15 and k in (0, 7, 14, 15)) else THOROUGH
                        inst(f"cost_{kind}_{op}_n{n}_idk{k}", f"cost::cost::<{ty}, {n}>({opi}, Tables::IdentityKey({k}))",
                             kind, n + grow, {"C05": tt}, "COST",
                             meta=dict(op=op, kind=kind, n=n, tables=f"identity, key {k}"), covers_required=False,
                             cost=2000 if dq else 600, mem=16 if dq else 8)

    # the bulk operations that rebuild: O(n) = one sift-down per internal node
    BULK = ["from_vec", "from_iter", "retain", "retain_mut", "convert", "append", "iter_mut"]
    for kind in ("pq", "dq"):
        ty = KINDS[kind]["ty"]
        dq = kind == "dq"
        for wi, w in enumerate(BULK):
            for n in (1, 2, 3, 4, 5, 6):
                # cost of the conversion is that of the OTHER kind's rebuild
                heavy = dq != (w == "convert")
                t = tq(n, 3 if heavy else 4, 5 if heavy else 6)
                if w in ("retain", "from_iter") and t == QUICK and n < 3:
                    t = THOROUGH
                if t is None:
                    continue
                inst(f"cost_{kind}_bulk_{w}_n{n}", f"cost::cost_bulk::<{ty}, {n}>({wi}, Tables::Any)", kind, n + 1,
                     {"C05": t}, "COST", meta=dict(op=w, kind=kind, n=n, tables="any", budget="Floyd: sum of sift-down budgets"),
                     covers_required=False, cost=(n + 1) * (30 if heavy else 8))
        # append of two queues of equal length: sifting the moved elements up one by one
        # (k log n) would leave the Floyd budget only at 16 + 16
        # (measured: 16 + 16 runs out of memory after 36 min, so it is not an instance)
        for n, t in ((2, QUICK), (4, THOROUGH), (8, THOROUGH)):
            inst(f"cost_{kind}_bulk_append_eq_n{n}", f"cost::cost_bulk::<{ty}, {n}>(7, Tables::{'Any' if n <= 4 else 'Identity'})", kind, 2 * n,
                 {"C05": t}, "COST", meta=dict(op="append (equal lengths)", kind=kind, n=n, m=n, tables="any" if n <= 4 else "identity"),
                 covers_required=False, cost=60 * n * (4 if dq else 1), mem=3 if n < 16 else 12)
        # the size at which a rebuild by repeated insertion (n log n) leaves the Floyd budget
        inst(f"cost_{kind}_bulk_iter_mut_n16_id", f"cost::cost_bulk::<{ty}, 16>(6, Tables::Identity)", kind, 16,
             {"C05": THOROUGH}, "COST", meta=dict(op="iter_mut", kind=kind, n=16, tables="identity"),
             covers_required=False, cost=2500 if dq else 800, mem=16 if dq else 8)
    # position split on the min-max heap at the sizes where a rebuild leaves the single-path budget
    for n, t, keys in ((6, QUICK, (0, 1, 3, 5)), (7, QUICK, (2, 6)), (7, THOROUGH, (0, 1, 3, 4, 5))):
        for op, opi in (("remove", 3), ("change", 1)):
            for k in keys:
                if op == "change" and t == QUICK and k not in (1, 5, 6):
                    continue
                inst(f"cost_dq_{op}_n{n}_idk{k}", f"cost::cost::<DqI, {n}>({opi}, Tables::IdentityKey({k}))",
                     "dq", n, {"C05": t}, "COST", meta=dict(op=op, kind="dq", n=n, tables=f"identity, key {k}"),
                     covers_required=False, cost=45 * n, mem=6)


_cost()


# --------------------------------------------------------------------------------------
# C10 crash points
# --------------------------------------------------------------------------------------
def _crash():
    OPS = ["push", "change", "change_by", "remove", "pop_hi", "pop_lo", "pop_hi_if", "pop_lo_if",
           "push_inc", "push_dec", "iter_mut_drop"]
    for kind in ("pq", "dq"):
        ty = KINDS[kind]["ty"]
        dq = kind == "dq"
        for opi, op in enumerate(OPS):
            if not dq and op in ("pop_lo", "pop_lo_if"):
                continue
            heavy = op in ("push", "change", "change_by", "remove", "pop_hi_if", "push_inc", "push_dec")
            for n in range(1, 6):
                # the max-heap sift-up only compares after a shift from depth 2 on (n >= 4)
                t = tq(n, (2 if heavy else 3) if dq else 4, 4 if dq else 5)
                if op in ("change_by", "push_dec") and n >= 2:
                    t = THOROUGH if t else None
                if t is None:
                    continue
                grow = 1 if op in ("push", "push_inc", "push_dec") else 0
                inst(f"crash_{kind}_{op}_n{n}", f"crash::crash::<{ty}, {n}>({opi}, Tables::Any)", kind, n + grow,
                     {"C10": t}, "CRASH", meta=dict(op=op, kind=kind, n=n, pre="cs", callbacks="Ord, Eq, Hash, closures"),
                     covers_required=False, cost=(n + 1) * (50 if dq and heavy else 10))


    # the min-max sift-up only compares after a shift when it starts on level 3: position 7,
    # n = 8 (identity tables, the addressed element at position 7 / the new element)
    for opi, op, n, k, t in ((1, "change", 8, 7, THOROUGH), (0, "push", 7, 7, QUICK), (3, "remove", 8, 3, THOROUGH),
                             (9, "push_dec", 8, 7, THOROUGH), (1, "change", 8, 3, THOROUGH)):
        grow = 1 if op in ("push", "push_dec") else 0
        inst(f"crash_dq_{op}_n{n}_idk{k}", f"crash::crash::<DqI, {n}>({opi}, Tables::IdentityKey({k}))", "dq", n + grow,
             {"C10": t}, "CRASH", meta=dict(op=op, kind="dq", n=n, pre="cs", tables=f"identity, key {k}"),
             covers_required=False, cost=400, mem=8)

    # ---- crash points inside the bulk operations (feeding iterator, retain predicate,
    # ---- Eq/Hash during append, comparisons of the final rebuild)
    for kind in ("pq", "dq"):
        ty = KINDS[kind]["ty"]
        dq = kind == "dq"
        # extend, push strategy
        for n in (0, 1, 2, 3, 4):
            a, x = n, 0
            pats = [("ab", [a, a + 1])] + ([("xa", [x, a]), ("ax", [a, x])] if n > 0 else [])
            for tag, keys in pats:
                t = tq(n, 1 if dq else 3, 3 if dq else 4)
                if tag == "ax":
                    t = THOROUGH if t else None
                if t is None:
                    continue
                inst(f"crash_{kind}_extend_n{n}_m2_{tag}_none",
                     f"crash::crash_extend::<{ty}, {n}, 2, {seq_of(keys)}>(Tables::Any, bulk::H_NONE)", kind, n + 2,
                     {"C10": t}, "CRASH", meta=dict(op="extend (push strategy)", kind=kind, n=n, m=2, keys=keys, pre="cs",
                                                     callbacks="feeding iterator, Ord, Eq, Hash"),
                     covers_required=False, cost=(n + 2) * (60 if dq else 10))
        # extend, rebuild strategy: receiver of 8, identity tables, hint far above
        for tag, keys in (("ab", [8, 9]), ("xa", [3, 8])):
            if dq and tag == "xa":
                continue    # measured: runs out of memory (40 GB) after 5 min of symbolic execution
            # quick: the same with all priorities one concrete value -- the bookkeeping around the
            # feed's callbacks does not depend on them and the final rebuild then costs nothing
            # (the rebuild's own comparisons are crash points of the iter_mut-drop instances)
            if tag == "ab" and not dq:      # (min-max heap: out of memory even so)
                inst(f"crash_{kind}_extend_n8_m2_{tag}_far_rebuild_flat",
                     f"{{ gen::set_flat_priorities(); crash::crash_extend::<{ty}, 8, 2, {seq_of(keys)}>(Tables::Identity, bulk::H_FAR) }}", kind, 10,
                     {"C10": QUICK}, "CRASH", meta=dict(op="extend (rebuild strategy)", kind=kind, n=8, m=2, keys=keys, pre="cs",
                                                         tables="identity", priorities="all equal (concrete)",
                                                         callbacks="feeding iterator, Ord, Eq, Hash"),
                     covers_required=False, cost=60, mem=4)
            t = THOROUGH
            inst(f"crash_{kind}_extend_n8_m2_{tag}_far_rebuild",
                 f"crash::crash_extend::<{ty}, 8, 2, {seq_of(keys)}>(Tables::Identity, bulk::H_FAR)", kind, 10,
                 {"C10": t}, "CRASH", meta=dict(op="extend (rebuild strategy)", kind=kind, n=8, m=2, keys=keys, pre="cs",
                                                 tables="identity", callbacks="feeding iterator, Ord, Eq, Hash"),
                 covers_required=False, cost=900 if dq else 200, mem=10)
        # retain / retain_mut: concrete verdict patterns
        for n in (1, 2, 3, 4):
            for pat in sorted({(1 << n) - 1, (1 << n) - 2, 1, 0}):
                for mutable in (True, False):
                    t = tq(n, 2 if dq else 3, 3 if dq else 4)
                    if (not mutable and pat != (1 << n) - 2) or (n == 1 and pat == 1) or (n >= 2 and pat == 1):
                        t = THOROUGH if t else None
                    if t is None:
                        continue
                    nm = "retain_mut" if mutable else "retain"
                    inst(f"crash_{kind}_{nm}_n{n}_p{pat:0{n}b}",
                         f"crash::crash_retain::<{ty}, {n}, {pat}>(Tables::Any, {B[mutable]})", kind, n,
                         {"C10": t}, "CRASH", meta=dict(op=nm, kind=kind, n=n, verdicts=f"{pat:0{n}b}", pre="cs",
                                                         callbacks="predicate (tables only: the map is mid-retain), Ord"),
                         covers_required=False, cost=(n + 1) * (40 if dq else 8))
        # append
        # (two NEW items must be moved for a callback to run between the first and the second move)
        for n, m, keys, t in ((2, 2, [0, 2], QUICK), (2, 2, [2, 3], QUICK), (1, 2, [0, 1], QUICK), (2, 1, [5], THOROUGH),
                              (3, 2, [1, 3], THOROUGH), (0, 2, [0, 1], THOROUGH), (3, 3, [3, 4, 5], THOROUGH)):
            if dq and n + m > 3 and t == QUICK and keys != [2, 3]:
                t = THOROUGH
            inst(f"crash_{kind}_append_n{n}_m{m}" + ("" if keys[0] < n or n == 0 else "_new"),
                 f"crash::crash_append::<{ty}, {n}, {m}, {seq_of(keys)}>(Tables::Any)", kind, n + m,
                 {"C10": t}, "CRASH", meta=dict(op="append", kind=kind, n=n, m=m, other_keys=keys, pre="cs",
                                                 callbacks="Eq, Hash, Ord; both queues probed"),
                 covers_required=False, cost=(n + m) * (40 if dq else 8))

    # continuations from the state a caught panic in the predicate of retain* leaves behind:
    # only memory safety counts, panics of the crate are tolerated (family SAFE)
    SOPS = [(0, "push"), (1, "change"), (2, "change_by"), (3, "remove"), (4, "pop_hi"), (5, "pop_lo"), (6, "pop_hi_if"),
            (7, "pop_lo_if"), (8, "push_inc"), (10, "iter_mut_drop"), (20, "reads"), (21, "clear_push"),
            (22, "drain_push"), (23, "retain_mut")]
    for kind in ("pq", "dq"):
        ty = KINDS[kind]["ty"]
        dq = kind == "dq"
        for opi, op in SOPS:
            if not dq and op in ("pop_lo", "pop_lo_if"):
                continue
            heavy = dq and op in ("push", "change", "change_by", "remove", "pop_hi_if", "push_inc")
            for n, d in ((1, 1), (2, 1), (3, 1), (3, 2), (4, 1)):
                t = tq(n, 2 if heavy else 3, 3 if dq else 4)
                if d == 2 or n == 1 or (heavy and op not in ("push", "change")):
                    t = THOROUGH if t else None
                if t is None:
                    continue
                grow = 1 if op in ("push", "push_inc", "clear_push", "drain_push") else 0
                inst(f"safe_{kind}_{op}_n{n}_d{d}", f"crash::shortmap::<{ty}, {n}, {d}>({opi}, Tables::Any)", kind, n + grow,
                     {"C10": t}, "SAFE", meta=dict(op=op, kind=kind, n=n, map_entries_missing=d,
                                                    pre="tables consistent, map short (after a caught panic in a retain predicate)",
                                                    tolerated="panics of the crate (unwrap of a missing entry, checked index)"),
                     covers_required=False, cost=(n + 1) * (50 if heavy else 10))


_crash()


# --------------------------------------------------------------------------------------
# C18: every hash value is an unconstrained fresh u64
# --------------------------------------------------------------------------------------
def _hasher():
    for kind, base in (("pqn", "pq"), ("dqn", "dq")):
        dq = base == "dq"
        for op, grow in (("push", 1), ("change_priority", 0), ("remove", 0), ("push_increase", 1), ("push_decrease", 1),
                         ("get_mut", 0), ("pop_hi", 0), ("change_priority_item", 0)):
            for n in range(0, 5):
                t = tq(n, qmax_of(base, op, 3, 2, 2), 4)
                if dq and op in ("push_increase", "push_decrease", "change_priority_item") and n >= 2:
                    t = THOROUGH
                grp = "all" if op in ("push_increase", "push_decrease", "get_mut", "change_priority_item") else "mo"
                step(op, kind, n, "inv", grp, {"C18": t}, grow=grow)

    # a hasher with per-instance state (every queue draws its own symbolic key, like
    # RandomState): the operations in which two maps meet, and the keyed single-queue ones
    for kind, base in (("pqk", "pq"), ("dqk", "dq")):
        ty = KINDS[kind]["ty"]
        dq = base == "dq"
        for n, m, keys, t in ((1, 1, [0], QUICK), (1, 1, [1], QUICK), (2, 1, [1], QUICK), (1, 2, [0, 1], QUICK),
                              (2, 2, [1, 2], THOROUGH), (3, 1, [2], THOROUGH)):
            if dq and n + m > 2 and t == QUICK:
                t = QUICK if (n, m) == (1, 2) else THOROUGH
            inst(f"append_{kind}_n{n}_m{m}_k{''.join(map(str, keys))}",
                 f"bulk::append::<{ty}, {n}, {m}, {seq_of(keys)}>(Pre::Inv, Tables::Any, step::ALL)",
                 kind, n + m, {"C18": t}, "STEP",
                 meta=dict(op="append", kind=kind, n=n, m=m, other_keys=keys, pre="inv", group="all", hasher="per-instance key"),
                 covers_required=False, cost=(n + m) * (15 if dq else 4), mem=16)
        for n in (1, 2, 3):
            t = tq(n, 1 if dq else 2, 3)
            inst(f"eq_{kind}_n{n}_m{n}", f"misc::eq2::<{ty}, {n}, {n}>()", kind, n, {"C18": t, "C14": t}, "EQ",
                 meta=dict(op="==", kind=kind, n=n, m=n, hasher="per-instance key"), covers_required=False)
            inst(f"clone_{kind}_n{n}", f"misc::clone_indep::<{ty}, {n}>()", kind, n + 1, {"C18": t, "C14": t}, "EQ",
                 meta=dict(op="clone", kind=kind, n=n, hasher="per-instance key"), covers_required=False, cost=(n + 1) * (40 if dq else 6))
            inst(f"convert_{kind}_n{n}", f"bulk::convert::<{ty}, {n}>(Pre::Inv, Tables::Any, step::ALL)",
                 base if dq else "dq", n, {"C18": t}, "STEP",
                 meta=dict(op="From<other kind>", source=kind, n=n, pre="inv", group="all", hasher="per-instance key"),
                 covers_required=False, cost=n * (4 if dq else 20))
            keys = [0, n]
            inst(f"extend_{kind}_n{n}_m2_xa_none",
                 f"bulk::extend::<{ty}, {n}, 2, {seq_of(keys)}>(Pre::Inv, Tables::Any, step::ALL, bulk::H_NONE)",
                 kind, n + 2, {"C18": t}, "STEP",
                 meta=dict(op="extend", kind=kind, n=n, m=2, keys=keys, hint="none", pre="inv", group="all", hasher="per-instance key"),
                 covers_required=False, cost=(n + 2) * 2 * (25 if dq else 4))
        for op, grow in (("push", 1), ("remove", 0), ("change_priority", 0)):
            for n in (1, 2, 3):
                step(op, kind, n, "inv", "mo", {"C18": tq(n, 1 if dq else 2, 3)}, grow=grow)


_hasher()


def select(prop, tier):
    out = []
    for i in INSTANCES:
        t = i["props"].get(prop)
        if t is None:
            continue
        if tier == THOROUGH or t == QUICK:
            out.append(i)
    return out


if __name__ == "__main__":
    props = sorted({p for i in INSTANCES for p in i["props"]})
    for p in props:
        q = select(p, QUICK)
        t = select(p, THOROUGH)
        print(p, "quick", len(q), "cost", sum(i["cost"] for i in q), "| thorough", len(t), "cost", sum(i["cost"] for i in t))
    print("total", len(INSTANCES))
