use core::hash::{BuildHasher, Hash};
use core::ops::RangeBounds;
use std::vec::Vec;

use crate::{Equivalent, TryReserveError};

#[path = "raw_entry_v1.rs"]
pub mod raw_entry_v1;

pub struct IndexMap<K, V, S> {
    pub(crate) entries: Vec<(K, V)>,
    pub(crate) hash_builder: S,
}

impl<K: Clone, V: Clone, S: Clone> Clone for IndexMap<K, V, S> {
    fn clone(&self) -> Self {
        IndexMap {
            entries: self.entries.clone(),
            hash_builder: self.hash_builder.clone(),
        }
    }
}

impl<K, V, S> IndexMap<K, V, S> {
    /// MODEL-ONLY constructor: take the entries as they are (the caller guarantees
    /// that the keys are pairwise distinct).
    pub fn model_from_entries(entries: Vec<(K, V)>, hash_builder: S) -> Self {
        IndexMap {
            entries,
            hash_builder,
        }
    }

    pub fn with_capacity_and_hasher(n: usize, hash_builder: S) -> Self {
        IndexMap {
            entries: Vec::with_capacity(n),
            hash_builder,
        }
    }

    pub const fn with_hasher(hash_builder: S) -> Self {
        IndexMap {
            entries: Vec::new(),
            hash_builder,
        }
    }

    pub fn capacity(&self) -> usize {
        self.entries.capacity()
    }

    pub fn hasher(&self) -> &S {
        &self.hash_builder
    }

    #[inline]
    pub fn len(&self) -> usize {
        self.entries.len()
    }

    #[inline]
    pub fn is_empty(&self) -> bool {
        self.entries.is_empty()
    }

    pub fn iter(&self) -> Iter<'_, K, V> {
        Iter {
            iter: self.entries.iter(),
        }
    }

    pub fn clear(&mut self) {
        self.entries.clear();
    }

    pub fn drain<R>(&mut self, range: R) -> Drain<'_, K, V>
    where
        R: RangeBounds<usize>,
    {
        Drain {
            iter: self.entries.drain(range),
        }
    }

    pub fn reserve(&mut self, additional: usize) {
        self.entries.reserve(additional);
    }

    pub fn reserve_exact(&mut self, additional: usize) {
        self.entries.reserve_exact(additional);
    }

    pub fn try_reserve(&mut self, additional: usize) -> Result<(), TryReserveError> {
        self.entries
            .try_reserve(additional)
            .map_err(TryReserveError::from_alloc)
    }

    pub fn try_reserve_exact(&mut self, additional: usize) -> Result<(), TryReserveError> {
        self.entries
            .try_reserve_exact(additional)
            .map_err(TryReserveError::from_alloc)
    }

    pub fn shrink_to_fit(&mut self) {
        self.entries.shrink_to_fit();
    }

    pub fn get_index(&self, index: usize) -> Option<(&K, &V)> {
        self.entries.get(index).map(|e| (&e.0, &e.1))
    }

    pub fn get_index_mut(&mut self, index: usize) -> Option<(&K, &mut V)> {
        self.entries.get_mut(index).map(|e| (&e.0, &mut e.1))
    }

    pub fn swap_remove_index(&mut self, index: usize) -> Option<(K, V)> {
        if index < self.entries.len() {
            Some(self.entries.swap_remove(index))
        } else {
            None
        }
    }

    // ---- neighbouring API, not used by priority-queue 2.3.1 itself: present so that a
    // ---- change of the crate that reaches for it still builds against the model
    pub fn shift_remove_index(&mut self, index: usize) -> Option<(K, V)> {
        if index < self.entries.len() {
            Some(self.entries.remove(index))
        } else {
            None
        }
    }

    pub fn pop(&mut self) -> Option<(K, V)> {
        self.entries.pop()
    }

    pub fn truncate(&mut self, len: usize) {
        self.entries.truncate(len);
    }

    pub fn swap_indices(&mut self, a: usize, b: usize) {
        self.entries.swap(a, b);
    }

    pub fn first(&self) -> Option<(&K, &V)> {
        self.entries.first().map(|e| (&e.0, &e.1))
    }

    pub fn last(&self) -> Option<(&K, &V)> {
        self.entries.last().map(|e| (&e.0, &e.1))
    }

    pub fn keys(&self) -> impl DoubleEndedIterator<Item = &K> + ExactSizeIterator {
        self.entries.iter().map(|e| &e.0)
    }

    pub fn values(&self) -> impl DoubleEndedIterator<Item = &V> + ExactSizeIterator {
        self.entries.iter().map(|e| &e.1)
    }

    pub fn values_mut(&mut self) -> impl DoubleEndedIterator<Item = &mut V> + ExactSizeIterator {
        self.entries.iter_mut().map(|e| &mut e.1)
    }

    pub fn iter_mut(&mut self) -> impl DoubleEndedIterator<Item = (&K, &mut V)> + ExactSizeIterator {
        self.entries.iter_mut().map(|e| (&e.0, &mut e.1))
    }

    pub fn retain<F>(&mut self, mut keep: F)
    where
        F: FnMut(&K, &mut V) -> bool,
    {
        self.entries.retain_mut(|e| keep(&e.0, &mut e.1));
    }

    pub fn shrink_to(&mut self, min_capacity: usize) {
        self.entries.shrink_to(min_capacity);
    }

    pub fn reverse(&mut self) {
        self.entries.reverse();
    }
}

impl<K, V, S: Default> IndexMap<K, V, S> {
    pub fn with_capacity_and_default_hasher(n: usize) -> Self {
        Self::with_capacity_and_hasher(n, S::default())
    }
}

impl<K, V, S: Default> Default for IndexMap<K, V, S> {
    fn default() -> Self {
        Self::with_capacity_and_hasher(0, S::default())
    }
}

impl<K, V, S> IndexMap<K, V, S>
where
    S: BuildHasher,
{
    /// One hasher invocation per keyed lookup, then a linear `Equivalent` scan.
    pub fn get_index_of<Q>(&self, key: &Q) -> Option<usize>
    where
        Q: ?Sized + Hash + Equivalent<K>,
    {
        // the real map does not hash when it holds fewer than two entries
        if self.entries.len() >= 2 {
            let _ = self.hash_builder.hash_one(key);
        }
        let mut i = 0;
        while i < self.entries.len() {
            if key.equivalent(&self.entries[i].0) {
                return Some(i);
            }
            i += 1;
        }
        None
    }

    pub fn contains_key<Q>(&self, key: &Q) -> bool
    where
        Q: ?Sized + Hash + Equivalent<K>,
    {
        self.get_index_of(key).is_some()
    }

    pub fn get<Q>(&self, key: &Q) -> Option<&V>
    where
        Q: ?Sized + Hash + Equivalent<K>,
    {
        match self.get_index_of(key) {
            Some(i) => Some(&self.entries[i].1),
            None => None,
        }
    }

    pub fn get_full<Q>(&self, key: &Q) -> Option<(usize, &K, &V)>
    where
        Q: ?Sized + Hash + Equivalent<K>,
    {
        match self.get_index_of(key) {
            Some(i) => {
                let e = &self.entries[i];
                Some((i, &e.0, &e.1))
            }
            None => None,
        }
    }

    pub fn get_mut<Q>(&mut self, key: &Q) -> Option<&mut V>
    where
        Q: ?Sized + Hash + Equivalent<K>,
    {
        match self.get_index_of(key) {
            Some(i) => Some(&mut self.entries[i].1),
            None => None,
        }
    }

    pub fn get_full_mut<Q>(&mut self, key: &Q) -> Option<(usize, &K, &mut V)>
    where
        Q: ?Sized + Hash + Equivalent<K>,
    {
        match self.get_index_of(key) {
            Some(i) => {
                let e = &mut self.entries[i];
                Some((i, &e.0, &mut e.1))
            }
            None => None,
        }
    }

    pub fn swap_remove_full<Q>(&mut self, key: &Q) -> Option<(usize, K, V)>
    where
        Q: ?Sized + Hash + Equivalent<K>,
    {
        match self.get_index_of(key) {
            Some(i) => {
                let (k, v) = self.entries.swap_remove(i);
                Some((i, k, v))
            }
            None => None,
        }
    }

    // ---- neighbouring API (see above)
    pub fn swap_remove<Q>(&mut self, key: &Q) -> Option<V>
    where
        Q: ?Sized + Hash + Equivalent<K>,
    {
        self.swap_remove_full(key).map(|(_, _, v)| v)
    }

    pub fn swap_remove_entry<Q>(&mut self, key: &Q) -> Option<(K, V)>
    where
        Q: ?Sized + Hash + Equivalent<K>,
    {
        self.swap_remove_full(key).map(|(_, k, v)| (k, v))
    }

    pub fn shift_remove_full<Q>(&mut self, key: &Q) -> Option<(usize, K, V)>
    where
        Q: ?Sized + Hash + Equivalent<K>,
    {
        match self.get_index_of(key) {
            Some(i) => {
                let (k, v) = self.entries.remove(i);
                Some((i, k, v))
            }
            None => None,
        }
    }

    pub fn shift_remove<Q>(&mut self, key: &Q) -> Option<V>
    where
        Q: ?Sized + Hash + Equivalent<K>,
    {
        self.shift_remove_full(key).map(|(_, _, v)| v)
    }

    pub fn get_key_value<Q>(&self, key: &Q) -> Option<(&K, &V)>
    where
        Q: ?Sized + Hash + Equivalent<K>,
    {
        self.get_full(key).map(|(_, k, v)| (k, v))
    }
}

impl<K, V, S> IndexMap<K, V, S>
where
    K: Hash + Eq,
    S: BuildHasher,
{
    pub fn insert(&mut self, key: K, value: V) -> Option<V> {
        self.insert_full(key, value).1
    }

    pub fn insert_full(&mut self, key: K, value: V) -> (usize, Option<V>) {
        // the real map hashes before it looks at the table, even when empty
        let _ = self.hash_builder.hash_one(&key);
        let mut i = 0;
        while i < self.entries.len() {
            if self.entries[i].0 == key {
                let old = core::mem::replace(&mut self.entries[i].1, value);
                return (i, Some(old));
            }
            i += 1;
        }
        self.entries.push((key, value));
        (i, None)
    }

    pub fn entry(&mut self, key: K) -> Entry<'_, K, V> {
        let _ = self.hash_builder.hash_one(&key);
        let mut i = 0;
        while i < self.entries.len() {
            if self.entries[i].0 == key {
                return Entry::Occupied(OccupiedEntry {
                    entries: &mut self.entries,
                    index: i,
                });
            }
            i += 1;
        }
        Entry::Vacant(VacantEntry {
            entries: &mut self.entries,
            key,
        })
    }
}

pub enum Entry<'a, K, V> {
    Occupied(OccupiedEntry<'a, K, V>),
    Vacant(VacantEntry<'a, K, V>),
}

impl<'a, K, V> Entry<'a, K, V> {
    pub fn index(&self) -> usize {
        match self {
            Entry::Occupied(e) => e.index(),
            Entry::Vacant(e) => e.index(),
        }
    }
    pub fn key(&self) -> &K {
        match self {
            Entry::Occupied(e) => e.key(),
            Entry::Vacant(e) => e.key(),
        }
    }
    pub fn or_insert(self, default: V) -> &'a mut V {
        match self {
            Entry::Occupied(e) => e.into_mut(),
            Entry::Vacant(e) => e.insert(default),
        }
    }
    pub fn or_insert_with<F: FnOnce() -> V>(self, call: F) -> &'a mut V {
        match self {
            Entry::Occupied(e) => e.into_mut(),
            Entry::Vacant(e) => e.insert(call()),
        }
    }
    pub fn and_modify<F: FnOnce(&mut V)>(mut self, f: F) -> Self {
        if let Entry::Occupied(e) = &mut self {
            f(e.get_mut());
        }
        self
    }
}

pub struct OccupiedEntry<'a, K, V> {
    entries: &'a mut Vec<(K, V)>,
    index: usize,
}

impl<'a, K, V> OccupiedEntry<'a, K, V> {
    pub fn index(&self) -> usize {
        self.index
    }
    pub fn key(&self) -> &K {
        &self.entries[self.index].0
    }
    pub fn get(&self) -> &V {
        &self.entries[self.index].1
    }
    pub fn get_mut(&mut self) -> &mut V {
        &mut self.entries[self.index].1
    }
    pub fn into_mut(self) -> &'a mut V {
        &mut self.entries[self.index].1
    }
    pub fn insert(&mut self, value: V) -> V {
        core::mem::replace(self.get_mut(), value)
    }
}

pub struct VacantEntry<'a, K, V> {
    entries: &'a mut Vec<(K, V)>,
    key: K,
}

impl<'a, K, V> VacantEntry<'a, K, V> {
    pub fn index(&self) -> usize {
        self.entries.len()
    }
    pub fn key(&self) -> &K {
        &self.key
    }
    pub fn insert(self, value: V) -> &'a mut V {
        let i = self.entries.len();
        self.entries.push((self.key, value));
        &mut self.entries[i].1
    }
}

/// Opt-in mutable access to keys.
pub trait MutableKeys {
    type Key;
    type Value;

    fn get_full_mut2<Q>(&mut self, key: &Q) -> Option<(usize, &mut Self::Key, &mut Self::Value)>
    where
        Q: ?Sized + Hash + Equivalent<Self::Key>;

    fn get_index_mut2(&mut self, index: usize) -> Option<(&mut Self::Key, &mut Self::Value)>;

    fn retain2<F>(&mut self, keep: F)
    where
        F: FnMut(&mut Self::Key, &mut Self::Value) -> bool;
}

impl<K, V, S> MutableKeys for IndexMap<K, V, S>
where
    S: BuildHasher,
{
    type Key = K;
    type Value = V;

    fn get_full_mut2<Q>(&mut self, key: &Q) -> Option<(usize, &mut K, &mut V)>
    where
        Q: ?Sized + Hash + Equivalent<K>,
    {
        match self.get_index_of(key) {
            Some(i) => {
                let e = &mut self.entries[i];
                Some((i, &mut e.0, &mut e.1))
            }
            None => None,
        }
    }

    fn get_index_mut2(&mut self, index: usize) -> Option<(&mut K, &mut V)> {
        self.entries.get_mut(index).map(|e| (&mut e.0, &mut e.1))
    }

    fn retain2<F>(&mut self, mut keep: F)
    where
        F: FnMut(&mut K, &mut V) -> bool,
    {
        self.entries.retain_mut(|e| keep(&mut e.0, &mut e.1));
    }
}

impl<K, V1, S1, V2, S2> PartialEq<IndexMap<K, V2, S2>> for IndexMap<K, V1, S1>
where
    K: Hash + Eq,
    V1: PartialEq<V2>,
    S1: BuildHasher,
    S2: BuildHasher,
{
    fn eq(&self, other: &IndexMap<K, V2, S2>) -> bool {
        if self.len() != other.len() {
            return false;
        }
        let mut i = 0;
        while i < self.entries.len() {
            let (key, value) = &self.entries[i];
            match other.get(key) {
                Some(v) => {
                    if !(*value == *v) {
                        return false;
                    }
                }
                None => return false,
            }
            i += 1;
        }
        true
    }
}

impl<K, V, S> Eq for IndexMap<K, V, S>
where
    K: Eq + Hash,
    V: Eq,
    S: BuildHasher,
{
}

pub struct Iter<'a, K, V> {
    iter: core::slice::Iter<'a, (K, V)>,
}

impl<'a, K, V> Iterator for Iter<'a, K, V> {
    type Item = (&'a K, &'a V);
    fn next(&mut self) -> Option<Self::Item> {
        self.iter.next().map(|e| (&e.0, &e.1))
    }
    fn size_hint(&self) -> (usize, Option<usize>) {
        self.iter.size_hint()
    }
}

impl<K, V> DoubleEndedIterator for Iter<'_, K, V> {
    fn next_back(&mut self) -> Option<Self::Item> {
        self.iter.next_back().map(|e| (&e.0, &e.1))
    }
}

impl<K, V> ExactSizeIterator for Iter<'_, K, V> {
    fn len(&self) -> usize {
        self.iter.len()
    }
}

impl<K, V> core::iter::FusedIterator for Iter<'_, K, V> {}

impl<K, V> Clone for Iter<'_, K, V> {
    fn clone(&self) -> Self {
        Iter {
            iter: self.iter.clone(),
        }
    }
}

pub struct IntoIter<K, V> {
    iter: std::vec::IntoIter<(K, V)>,
}

impl<K, V> Iterator for IntoIter<K, V> {
    type Item = (K, V);
    fn next(&mut self) -> Option<Self::Item> {
        self.iter.next()
    }
    fn size_hint(&self) -> (usize, Option<usize>) {
        self.iter.size_hint()
    }
}

impl<K, V> DoubleEndedIterator for IntoIter<K, V> {
    fn next_back(&mut self) -> Option<Self::Item> {
        self.iter.next_back()
    }
}

impl<K, V> ExactSizeIterator for IntoIter<K, V> {
    fn len(&self) -> usize {
        self.iter.len()
    }
}

impl<K, V> core::iter::FusedIterator for IntoIter<K, V> {}

pub struct Drain<'a, K, V> {
    iter: std::vec::Drain<'a, (K, V)>,
}

impl<K, V> Iterator for Drain<'_, K, V> {
    type Item = (K, V);
    fn next(&mut self) -> Option<Self::Item> {
        self.iter.next()
    }
    fn size_hint(&self) -> (usize, Option<usize>) {
        self.iter.size_hint()
    }
}

impl<K, V> DoubleEndedIterator for Drain<'_, K, V> {
    fn next_back(&mut self) -> Option<Self::Item> {
        self.iter.next_back()
    }
}

impl<K, V> ExactSizeIterator for Drain<'_, K, V> {
    fn len(&self) -> usize {
        self.iter.len()
    }
}

impl<K, V> core::iter::FusedIterator for Drain<'_, K, V> {}

impl<K, V, S> IntoIterator for IndexMap<K, V, S> {
    type Item = (K, V);
    type IntoIter = IntoIter<K, V>;
    fn into_iter(self) -> Self::IntoIter {
        IntoIter {
            iter: self.entries.into_iter(),
        }
    }
}

impl<'a, K, V, S> IntoIterator for &'a IndexMap<K, V, S> {
    type Item = (&'a K, &'a V);
    type IntoIter = Iter<'a, K, V>;
    fn into_iter(self) -> Self::IntoIter {
        self.iter()
    }
}
