//! Model of `indexmap::map::raw_entry_v1` (the subset a change of priority-queue could
//! plausibly reach for). A lookup scans linearly like every other lookup of the model and
//! ignores the hash *value*. What the real map requires of a caller-supplied hash -- that
//! it is this map's own hash of the key -- is the contract of this API; when the harness
//! switches `MODEL_CHECK_RAW_HASH` on (hashers with per-instance state), a violation of
//! that contract is reported as a failed environment assertion. The counterexample is
//! then replayed on the real map, where the misfiled entry is actually lost.

use core::hash::{BuildHasher, Hash};
use std::vec::Vec;

use crate::map::IndexMap;
use crate::Equivalent;

/// switched on by harnesses whose hasher is deterministic per instance
pub static mut MODEL_CHECK_RAW_HASH: bool = false;

#[inline(always)]
fn check_hash<K: ?Sized + Hash, S: BuildHasher>(s: &S, hash: u64, key: &K) {
    unsafe {
        if MODEL_CHECK_RAW_HASH {
            assert!(
                s.hash_one(key) == hash,
                "ENV: the hash handed to the map's raw-entry API is this map's own hash of the key"
            );
        }
    }
}

pub trait RawEntryApiV1<K, V, S> {
    fn raw_entry_v1(&self) -> RawEntryBuilder<'_, K, V, S>;
    fn raw_entry_mut_v1(&mut self) -> RawEntryBuilderMut<'_, K, V, S>;
}

impl<K, V, S> RawEntryApiV1<K, V, S> for IndexMap<K, V, S> {
    fn raw_entry_v1(&self) -> RawEntryBuilder<'_, K, V, S> {
        RawEntryBuilder { map: self }
    }
    fn raw_entry_mut_v1(&mut self) -> RawEntryBuilderMut<'_, K, V, S> {
        RawEntryBuilderMut { map: self }
    }
}

pub struct RawEntryBuilder<'a, K, V, S> {
    map: &'a IndexMap<K, V, S>,
}

impl<'a, K, V, S> RawEntryBuilder<'a, K, V, S> {
    pub fn from_key<Q>(self, key: &Q) -> Option<(&'a K, &'a V)>
    where
        S: BuildHasher,
        Q: ?Sized + Hash + Equivalent<K>,
    {
        self.map.get_key_value(key)
    }

    pub fn from_key_hashed_nocheck<Q>(self, hash: u64, key: &Q) -> Option<(&'a K, &'a V)>
    where
        S: BuildHasher,
        Q: ?Sized + Hash + Equivalent<K>,
    {
        check_hash(&self.map.hash_builder, hash, key);
        self.from_hash(hash, |k| key.equivalent(k))
    }

    pub fn from_hash<F>(self, hash: u64, is_match: F) -> Option<(&'a K, &'a V)>
    where
        F: FnMut(&K) -> bool,
    {
        self.from_hash_full(hash, is_match).map(|(_, k, v)| (k, v))
    }

    pub fn from_hash_full<F>(self, hash: u64, is_match: F) -> Option<(usize, &'a K, &'a V)>
    where
        F: FnMut(&K) -> bool,
    {
        let map = self.map;
        let i = RawEntryBuilder { map }.index_from_hash(hash, is_match)?;
        let e = &map.entries[i];
        Some((i, &e.0, &e.1))
    }

    pub fn index_from_hash<F>(self, _hash: u64, mut is_match: F) -> Option<usize>
    where
        F: FnMut(&K) -> bool,
    {
        let mut i = 0;
        while i < self.map.entries.len() {
            if is_match(&self.map.entries[i].0) {
                return Some(i);
            }
            i += 1;
        }
        None
    }
}

pub struct RawEntryBuilderMut<'a, K, V, S> {
    map: &'a mut IndexMap<K, V, S>,
}

impl<'a, K, V, S> RawEntryBuilderMut<'a, K, V, S> {
    pub fn from_key<Q>(self, key: &Q) -> RawEntryMut<'a, K, V, S>
    where
        S: BuildHasher,
        Q: ?Sized + Hash + Equivalent<K>,
    {
        let hash = self.map.hash_builder.hash_one(key);
        self.from_hash(hash, |k| key.equivalent(k))
    }

    pub fn from_key_hashed_nocheck<Q>(self, hash: u64, key: &Q) -> RawEntryMut<'a, K, V, S>
    where
        S: BuildHasher,
        Q: ?Sized + Hash + Equivalent<K>,
    {
        check_hash(&self.map.hash_builder, hash, key);
        self.from_hash(hash, |k| key.equivalent(k))
    }

    pub fn from_hash<F>(self, _hash: u64, mut is_match: F) -> RawEntryMut<'a, K, V, S>
    where
        F: FnMut(&K) -> bool,
    {
        let mut i = 0;
        while i < self.map.entries.len() {
            if is_match(&self.map.entries[i].0) {
                return RawEntryMut::Occupied(RawOccupiedEntryMut {
                    entries: &mut self.map.entries,
                    index: i,
                    hash_builder: &self.map.hash_builder,
                });
            }
            i += 1;
        }
        RawEntryMut::Vacant(RawVacantEntryMut {
            entries: &mut self.map.entries,
            hash_builder: &self.map.hash_builder,
        })
    }
}

pub enum RawEntryMut<'a, K, V, S> {
    Occupied(RawOccupiedEntryMut<'a, K, V, S>),
    Vacant(RawVacantEntryMut<'a, K, V, S>),
}

impl<'a, K, V, S> RawEntryMut<'a, K, V, S> {
    pub fn index(&self) -> usize {
        match self {
            RawEntryMut::Occupied(e) => e.index(),
            RawEntryMut::Vacant(e) => e.index(),
        }
    }

    pub fn or_insert(self, default_key: K, default_value: V) -> (&'a mut K, &'a mut V)
    where
        K: Hash,
        S: BuildHasher,
    {
        match self {
            RawEntryMut::Occupied(e) => e.into_key_value_mut(),
            RawEntryMut::Vacant(e) => e.insert(default_key, default_value),
        }
    }

    pub fn or_insert_with<F>(self, call: F) -> (&'a mut K, &'a mut V)
    where
        F: FnOnce() -> (K, V),
        K: Hash,
        S: BuildHasher,
    {
        match self {
            RawEntryMut::Occupied(e) => e.into_key_value_mut(),
            RawEntryMut::Vacant(e) => {
                let (k, v) = call();
                e.insert(k, v)
            }
        }
    }

    pub fn and_modify<F>(mut self, f: F) -> Self
    where
        F: FnOnce(&mut K, &mut V),
    {
        if let RawEntryMut::Occupied(e) = &mut self {
            let (k, v) = e.get_key_value_mut();
            f(k, v);
        }
        self
    }
}

pub struct RawOccupiedEntryMut<'a, K, V, S> {
    entries: &'a mut Vec<(K, V)>,
    index: usize,
    #[allow(dead_code)]
    hash_builder: &'a S,
}

impl<'a, K, V, S> RawOccupiedEntryMut<'a, K, V, S> {
    pub fn index(&self) -> usize {
        self.index
    }
    pub fn key(&self) -> &K {
        &self.entries[self.index].0
    }
    pub fn key_mut(&mut self) -> &mut K {
        &mut self.entries[self.index].0
    }
    pub fn into_key(self) -> &'a mut K {
        &mut self.entries[self.index].0
    }
    pub fn get(&self) -> &V {
        &self.entries[self.index].1
    }
    pub fn get_mut(&mut self) -> &mut V {
        &mut self.entries[self.index].1
    }
    pub fn into_mut(self) -> &'a mut V {
        &mut self.entries[self.index].1
    }
    pub fn get_key_value(&self) -> (&K, &V) {
        let e = &self.entries[self.index];
        (&e.0, &e.1)
    }
    pub fn get_key_value_mut(&mut self) -> (&mut K, &mut V) {
        let e = &mut self.entries[self.index];
        (&mut e.0, &mut e.1)
    }
    pub fn into_key_value_mut(self) -> (&'a mut K, &'a mut V) {
        let e = &mut self.entries[self.index];
        (&mut e.0, &mut e.1)
    }
    pub fn insert(&mut self, value: V) -> V {
        core::mem::replace(self.get_mut(), value)
    }
    pub fn insert_key(&mut self, key: K) -> K {
        core::mem::replace(self.key_mut(), key)
    }
    pub fn swap_remove(self) -> V {
        self.swap_remove_entry().1
    }
    pub fn shift_remove(self) -> V {
        self.shift_remove_entry().1
    }
    pub fn swap_remove_entry(self) -> (K, V) {
        self.entries.swap_remove(self.index)
    }
    pub fn shift_remove_entry(self) -> (K, V) {
        self.entries.remove(self.index)
    }
}

pub struct RawVacantEntryMut<'a, K, V, S> {
    entries: &'a mut Vec<(K, V)>,
    hash_builder: &'a S,
}

impl<'a, K, V, S> RawVacantEntryMut<'a, K, V, S> {
    pub fn index(&self) -> usize {
        self.entries.len()
    }

    pub fn insert(self, key: K, value: V) -> (&'a mut K, &'a mut V)
    where
        K: Hash,
        S: BuildHasher,
    {
        let hash = self.hash_builder.hash_one(&key);
        self.insert_hashed_nocheck(hash, key, value)
    }

    pub fn insert_hashed_nocheck(self, hash: u64, key: K, value: V) -> (&'a mut K, &'a mut V)
    where
        K: Hash,
        S: BuildHasher,
    {
        check_hash(self.hash_builder, hash, &key);
        let i = self.entries.len();
        self.entries.push((key, value));
        let e = &mut self.entries[i];
        (&mut e.0, &mut e.1)
    }
}
