//! Vec-backed environment model of `indexmap::IndexMap` (API subset used by
//! priority-queue 2.3.1). Entries live in a `Vec<(K, V)>` in insertion order; a keyed
//! lookup invokes the hasher once (as the real map does) and then scans linearly with
//! `Equivalent`. Semantics copied from indexmap 2.14.2:
//!  * `swap_remove_*` moves the last entry into the hole,
//!  * `retain2` preserves the order of the survivors,
//!  * `drain(..)` empties the map up front (a leaked `Drain` leaves it empty),
//!  * `insert`/`entry` on a present key keep the stored key and drop the passed one.

pub use equivalent::Equivalent;

pub mod map;
pub use map::IndexMap;

/// The error type for `try_reserve` methods.
#[derive(Clone, PartialEq, Eq, Debug)]
pub struct TryReserveError {
    kind: std::collections::TryReserveError,
}

impl TryReserveError {
    pub(crate) fn from_alloc(kind: std::collections::TryReserveError) -> Self {
        TryReserveError { kind }
    }
}

impl core::fmt::Display for TryReserveError {
    fn fmt(&self, f: &mut core::fmt::Formatter<'_>) -> core::fmt::Result {
        core::fmt::Display::fmt(&self.kind, f)
    }
}

impl std::error::Error for TryReserveError {}
