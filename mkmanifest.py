#!/usr/bin/env python3
"""Writes /verif/MANIFEST.json. Run after changing which properties are claimed."""
import json, os, sys
ROOT = os.path.dirname(os.path.abspath(__file__))
sys.path.insert(0, ROOT)
import instances as I

TECH = ("bounded model checking of the compiled crate (Kani 0.68 -> CBMC 6.11 -> CaDiCaL): inductive step "
        "obligations from fully symbolic pre-states of concrete size, decided by the SAT solver; "
        "counterexamples replayed natively against the real build")

P = {
 "C01": ("§5 C01", "Base (constructors, From<Vec>, FromIterator, conversion from DoublePriorityQueue) plus inductive step: from EVERY max-heap-ordered, structurally consistent state of n elements (all slot/position permutations, all priorities incl. ties and 0/255, all key sets) one call of each mutating operation re-establishes the heap order, peek() >= every stored priority (quantified over the raw slots), and pop/pop_if/peek_mut address what peek reported. Holds for every history whose queue never exceeds the stated size."),
 "C02": ("§5 C02", "Same induction for the min-max heap: ORD_mm re-established by every operation from every ordered state; peek_min/peek_max are true extremes over all stored priorities; pop_*/pop_*_if/peek_*_mut address the peeked element; sizes 0..3 separately; beyond the fully symbolic sizes the obligation is case-split on the position of the addressed element (identity tables)."),
 "C03": ("§5 C03", "Every operation's return value and effect on the abstract contents (key -> stored item value, priority) equals a direct-address reference table, from every structurally consistent pre-state (even unordered ones); read back through raw slots and through get/get_priority/get_mut/len/is_empty with a symbolic probe key, iter/into_iter/into_vec as multisets."),
 "C04": ("§5 C04", "From every structurally consistent state WITHOUT any order requirement (covers a leaked iter_mut) every operation passes all of Kani's checks (no panic, no arithmetic overflow, no out-of-bounds/dangling access through any get_unchecked) and ends structurally consistent with len() agreeing with all tables; constructors and bulk builders likewise."),
 "C05": ("§5 C05", "Bounded claim only (no asymptotics): for every heap-ordered state up to the stated sizes and every argument, the number of Ord calls on the priority type made by one operation is within the single-path budget OF THE HEAP POSITION IT ADDRESSES (sift up from the depth of that position OR down over the levels below it, plus one round and two spare comparisons; nothing when the removed element sat in the last slot; new elements only rise); peeks and lookups make none (peek_max at most one); the bulk operations that rebuild (from a vector/iterator, retain, retain_mut, conversion, append, rewriting iter_mut) make at most one sift-down per internal node. Budgets separate logarithmic from linear work from n = 6/7 on (position split at n = 6, 7, 15, 16)."),
 "C06": ("§5 C06", "From every ordered state of n elements, complete consumption through into_sorted_iter (PriorityQueue; DoublePriorityQueue under every interleaving of next/next_back incl. calls after exhaustion) and the into_*sorted_vec functions yields every element once, each time an extreme of what remains; len() counts down exactly."),
 "C07": ("§5 C07", "From<Vec> first-wins, FromIterator/extend last-wins, append (receiver wins unless other longer, other left empty), conversions: contents equal the reference and the result is correctly ordered, for every legal size_hint class (lower bound 0, upper None, exact, far above, usize::MAX) and both extend strategies; two different hints on the same sequence give the same queue."),
 "C08": ("§5 C08", "retain/retain_mut (every concrete verdict pattern, symbolic rewrites), iter_mut (symbolic consumed prefix, symbolic rewrites, then drop) and the pop_if family (both verdicts, symbolic rewrite) from every ordered state: predicate call discipline, survivors/contents as requested, order restored."),
 "C09": ("§5 C09", "Protocol of both iter_mut iterators under a symbolic program of next/next_back calls (n+2 calls, so calls after exhaustion are included): all references handed out pairwise distinct (pointer comparison), every element exactly once, then None forever; len() and size_hint() exact at every step for every iter_mut type that DECLARES an exact size in the crate's current source (decided at compile time by autoref specialisation, so a newly added ExactSizeIterator impl is held to it)."),
 "C10": ("§5 C10", "Crash point turned into data: at a symbolic k-th user callback (Ord on priorities, Eq/Hash on items, closures, the iterator feeding extend) inside each single-element operation, iter_mut drop, extend (both strategies), append (both queues) and retain/retain_mut the raw tables are probed for mutual consistency at that instant; continuations are the C04 obligations from order-free states plus, for the state a panicking retain predicate leaves (tables consistent, map short), one call of every operation under memory-safety checks only (panics tolerated); leaked iter_mut/drain followed by use under Kani's memory checks. A failed probe is reported only after native confirmation with REAL unwinding (panic at the recorded callback, caught, a continuation aborts on an unsafe-precondition check). Clone panics and drop-balance on unwinding paths are argued, not checked."),
 "C11": ("§5 C11", "push_increase/push_decrease from every ordered state, symbolic item and offer: absent / strictly better / equal / worse are distinguished; in the not-better cases the complete raw snapshot is bit-identical; order and contents otherwise as the reference."),
 "C12": ("§5 C12", "Items carry a payload ignored by Eq/Hash: updates through push/push_increase/decrease/change_priority (borrowed and owned lookup key with a different payload) leave the stored payload; payloads written through get_mut/peek*_mut/iter_mut are what the reference then holds; borrowed and owned keys address the same element."),
 "C13": ("§5 C13", "Protocol of iter, into_iter, drain and the sorted iterators under a symbolic program of next/next_back: every element once, None afterwards, never the same element from both ends; every type that declares ExactSizeIterator has len() == size_hint() == remaining before every call (the contract std adaptors rely on)."),
 "C14": ("§5 C14", "Two independent symbolic states (different arrangement, capacity and -- with the per-instance keyed hasher -- hasher state): == holds iff the (item, priority) sets coincide, is symmetric and reflexive (hence an equivalence within the bound); a clone has the same tables, is equal, and neither side observes a push on the other; the same push on both keeps them equal."),
 "C15": ("§5 C15", "A purpose-built serde format hands the crate's Visitor symbolic pair sequences (concrete key pattern with repeats, symbolic payloads/priorities, with and without size hint) and collects what Serialize emits: round trips between both kinds give equal, ordered, usable queues; arbitrary sequences give Err or an ordered queue with each distinct item once; never a panic."),
 "C16": ("§5 C16", "drain with a symbolic consumption pattern from either end, then drop or mem::forget, and clear: yielded elements are distinct stored elements (all of them when fully consumed); afterwards the queue is empty, structurally consistent, peeks/pops None, and two following pushes behave as on a fresh queue."),
 "C17": ("§5 C17", "reserve/reserve_exact/try_reserve/try_reserve_exact/shrink_to_fit/with_capacity with concrete request classes (0, 1, 5, and byte-size-overflowing requests for try_*): raw snapshot unchanged, capacity() lower bounds, huge try_* returns Err without panic, a following push agrees with the reference. capacity() is the model map's; allocator refusal is outside the claim."),
 "C18": ("§5 C18", "(i) The crate is instantiated with a hasher whose every finish() is a fresh unconstrained u64: the keyed operations still meet the reference for EVERY sequence of hash values (consistent or not, colliding or not), i.e. the crate never depends on a hash value. (ii) With a per-instance keyed hasher (every queue draws its own symbolic key, like RandomState) append, ==, clone, conversion, extend and the keyed operations meet the reference whatever the keys; a hash computed with one map's hasher and handed to another map's raw-entry API violates the environment contract the map model checks. (iii) new()/with_capacity() with std's RandomState (constructor stubbed by two unconstrained words). Collision handling inside hashbrown is indexmap's contract and is trusted."),
}

# properties whose quick check runs clean on the current tree
CLAIMED = set(open(os.path.join(ROOT, "claimed.txt")).read().split())


def main():
    checks = []
    claimed = sorted({p for i in I.INSTANCES for p in i["props"]})
    claimed = [p for p in claimed if p in P and p in CLAIMED]
    for p in claimed:
        ref, text = P[p]
        checks.append(dict(
            property_id=p,
            quick_cmd=f"./check {p} --tier quick",
            thorough_cmd=f"./check {p} --tier thorough",
            evidence_file=f"/verif/evidence/{p}.json",
            replay_cmd_template=f"./check {p} --replay {{path}}",
            engine="kani-cbmc",
            level_claimed=dict(category="model_checking", text=text, design_ref="DESIGN.md " + ref),
            level_note=("Bounded: sizes, key universe (32) and carrier types as stated in the evidence file; "
                        "IndexMap replaced by the validated Vec-backed model (DESIGN.md §3.2); trusted: rustc/Kani "
                        "MIR->goto translation, CBMC, CaDiCaL, the reference table; unwinding assertions on."),
            technique=TECH,
        ))
    props = [json.loads(l)["id"] for l in open(os.path.join(ROOT, "properties.jsonl"))]
    na = [dict(property_id=p, reason="check under construction in this round (planned in DESIGN.md §5); not claimed until its instances run clean")
          for p in props if p not in claimed]
    m = dict(
        version=1,
        setup_cmd="./check setup",
        hooks=dict(
            guard="priority_queue_verif",
            enable='RUSTFLAGS="--cfg priority_queue_verif" (set by ./check for cargo kani and for the native replay build)',
            baseline_off_cmd="cd /repo && cargo test --workspace --no-fail-fast --offline",
            source_commits=open(os.path.join(ROOT, "hooks_commits.txt")).read().split(),
            add_only=True,
        ),
        engines=[dict(name="kani-cbmc", path="/verif/check", serves_properties=claimed,
                      kind_free_text="Kani 0.68 proof harnesses (/verif/harness) over the real crate, CBMC 6.11 + CaDiCaL; runner /verif/check")],
        checks=checks,
        notes="See DESIGN.md. Exit codes of ./check: 0 held, 1 VIOLATION (replayed), 2 non-reproducing counterexample (framework bug), 3 undecided.",
        not_applicable=na,
    )
    json.dump(m, open(os.path.join(ROOT, "MANIFEST.json"), "w"), indent=1)
    print("claimed:", claimed)

main()
