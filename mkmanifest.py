#!/usr/bin/env python3
"""Writes /verif/MANIFEST.json. Run after changing which properties are claimed."""
import json, os, sys
ROOT = os.path.dirname(os.path.abspath(__file__))
sys.path.insert(0, ROOT)
import instances as I

TECH = ("bounded model checking of the compiled crate (Kani 0.68 -> CBMC 6.11 -> CaDiCaL): inductive step "
        "obligations from fully symbolic pre-states of concrete size, decided by the SAT solver; "
        "counterexamples replayed natively against the real build")

P = {
 "C01": ("§5 C01", "Base (constructors, bulk builders) plus inductive step: from EVERY max-heap-ordered, structurally consistent state of n elements (all slot/position permutations, all priorities incl. ties and 0/255, all key sets) one call of each mutating operation re-establishes the heap order, peek() >= every stored priority, and pop/pop_if/peek_mut address what peek reported. Holds for every history whose queue never exceeds the stated size."),
 "C02": ("§5 C02", "Same induction for the min-max heap: ORD_mm re-established by every operation from every ordered state; peek_min/peek_max are true extremes over all stored priorities; pop_*/pop_*_if/peek_*_mut address the peeked element; sizes 1,2,3 separately, identity-table states at n>=15 in the thorough tier."),
 "C03": ("§5 C03", "Every operation's return value and effect on the abstract contents (key -> stored item value, priority) equals a direct-address reference table, from every reachable-shaped pre-state; read back through raw slots and through get/get_priority/get_mut/len/is_empty with a symbolic probe key."),
 "C04": ("§5 C04", "From every structurally consistent state WITHOUT any order requirement (covers leaked iter_mut) every operation passes all of Kani's checks (no panic, no overflow, no out-of-bounds/dangling access through any get_unchecked) and ends structurally consistent with len() agreeing with all tables."),
}

def main():
    checks = []
    claimed = sorted({p for i in I.INSTANCES for p in i["props"]})
    claimed = [p for p in claimed if p in P]
    for p in claimed:
        ref, text = P[p]
        checks.append(dict(
            property_id=p,
            quick_cmd=f"./check {p} --tier quick",
            thorough_cmd=f"./check {p} --tier thorough",
            evidence_file=f"/verif/evidence/{p}.json",
            replay_cmd_template=f"./check {p} --replay {{path}}",
            engine="kani-cbmc",
            level_claimed=dict(category="model_checking", text=text, design_ref="DESIGN.md " + ref),
            level_note=("Bounded: sizes, key universe (16) and carrier types as stated in the evidence file; "
                        "IndexMap replaced by the validated Vec-backed model (DESIGN.md §3.2); trusted: rustc/Kani "
                        "MIR->goto translation, CBMC, CaDiCaL, the reference table; unwinding assertions on."),
            technique=TECH,
        ))
    props = [json.loads(l)["id"] for l in open(os.path.join(ROOT, "properties.jsonl"))]
    na = [dict(property_id=p, reason="check under construction in this round (planned in DESIGN.md §5); not claimed until its instances run clean")
          for p in props if p not in claimed]
    m = dict(
        version=1,
        setup_cmd="./check setup",
        hooks=dict(
            guard="priority_queue_verif",
            enable='RUSTFLAGS="--cfg priority_queue_verif" (set by ./check for cargo kani and for the native replay build)',
            baseline_off_cmd="cd /repo && cargo test --workspace --no-fail-fast --offline",
            source_commits=open(os.path.join(ROOT, "hooks_commits.txt")).read().split(),
            add_only=True,
        ),
        engines=[dict(name="kani-cbmc", path="/verif/check", serves_properties=claimed,
                      kind_free_text="Kani 0.68 proof harnesses (/verif/harness) over the real crate, CBMC 6.11 + CaDiCaL; runner /verif/check")],
        checks=checks,
        notes="See DESIGN.md. Exit codes of ./check: 0 held, 1 VIOLATION (replayed), 2 non-reproducing counterexample (framework bug), 3 undecided.",
        not_applicable=na,
    )
    json.dump(m, open(os.path.join(ROOT, "MANIFEST.json"), "w"), indent=1)
    print("claimed:", claimed)

main()
