//! Native replay of a solver counterexample: `replay <instance>` reads the draws
//! (`[[b0,b1,..],..]`, one byte vector per `sym` draw, in call order) from stdin and
//! runs the same harness body against the real build. A violated assertion panics
//! (exit 101); std's unsafe-precondition checks abort (dev profile).

#[cfg(not(kani))]
fn parse(s: &str) -> Vec<Vec<u8>> {
    let mut out = Vec::new();
    let mut cur: Option<Vec<u8>> = None;
    let mut num: Option<u32> = None;
    let mut depth = 0;
    for c in s.chars() {
        match c {
            '[' => {
                depth += 1;
                if depth == 2 {
                    cur = Some(Vec::new());
                }
            }
            ']' => {
                if let (Some(n), Some(v)) = (num.take(), cur.as_mut()) {
                    v.push(n as u8);
                }
                if depth == 2 {
                    out.push(cur.take().unwrap());
                }
                depth -= 1;
            }
            ',' => {
                if let (Some(n), Some(v)) = (num.take(), cur.as_mut()) {
                    v.push(n as u8);
                }
            }
            d if d.is_ascii_digit() => {
                num = Some(num.unwrap_or(0) * 10 + d.to_digit(10).unwrap());
            }
            _ => {}
        }
    }
    out
}

#[cfg(not(kani))]
pub fn replay_main() -> i32 {
    use std::io::Read;
    let name = match std::env::args().nth(1) {
        Some(n) => n,
        None => {
            eprintln!("usage: replay <instance> < draws.json");
            return 64;
        }
    };
    let mut s = String::new();
    std::io::stdin().read_to_string(&mut s).unwrap();
    let draws = parse(&s);
    let f = match crate::generated::lookup(&name) {
        Some(f) => f,
        None => {
            eprintln!("unknown instance {}", name);
            return 64;
        }
    };
    crate::hook::reset();
    crate::sym::load(draws);
    f();
    println!("replay: harness body returned normally ({} draws consumed)", crate::sym::consumed());
    0
}

#[cfg(kani)]
pub fn replay_main() -> i32 {
    0
}
