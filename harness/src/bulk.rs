//! Bulk construction, extend, append, conversions (C07) and the BASE family.
//!
//! Keys are concrete per instance (const parameter `SEQ`, one hex digit per pair) so that
//! presence/absence -- and with it every table length -- is concrete; which slot and
//! which heap position an element occupies, all priorities and all payloads are symbolic.

use crate::chk::{assert_inv, Tab};
use crate::cover;
use crate::gen::{iota, state_keys, Ghost, Pre, Tables};
use crate::hook;
use crate::q::Q;
use crate::step::{post, Grp};
use crate::sym;
use crate::types::{Item, Pr};

pub const fn key_of(seq: u32, j: usize) -> u8 {
    ((seq >> (4 * j)) & 15) as u8
}

/// The iterator handed to extend / from_iter: yields `M` pairs, reports an arbitrary
/// (per instance) legal size_hint.
pub struct Feed<const M: usize> {
    pub items: [(u8, u8, u8); M],
    pub pos: usize,
    pub lo: usize,
    pub hi: Option<usize>,
}

impl<const M: usize> Iterator for Feed<M> {
    type Item = (Item, Pr);
    fn next(&mut self) -> Option<(Item, Pr)> {
        hook::user_callback(hook::CB_ITER);
        if self.pos < M {
            let (k, pay, p) = self.items[self.pos];
            self.pos += 1;
            Some((Item::new(k, pay), Pr(p)))
        } else {
            None
        }
    }
    fn size_hint(&self) -> (usize, Option<usize>) {
        (self.lo, self.hi)
    }
}

/// legal size_hint classes for an iterator that will yield `m` more elements
pub const H_NONE: u8 = 0; //  (0, None)
pub const H_EXACT: u8 = 1; // (m, Some(m))
pub const H_UPPER: u8 = 2; // (0, Some(m))
pub const H_LOWER: u8 = 3; // (m, None)
pub const H_FAR: u8 = 4; //   (0, Some(m + 15)): an upper bound far above what is yielded
pub const H_MAX: u8 = 5; //   (0, Some(usize::MAX))
pub const H_LOMAX: u8 = 6; // (m, Some(usize::MAX))

pub fn hint(class: u8, m: usize) -> (usize, Option<usize>) {
    match class {
        H_NONE => (0, None),
        H_EXACT => (m, Some(m)),
        H_UPPER => (0, Some(m)),
        H_LOWER => (m, None),
        H_FAR => (0, Some(m + 15)),
        H_MAX => (0, Some(usize::MAX)),
        _ => (m, Some(usize::MAX)),
    }
}

pub fn feed<const M: usize>(seq: u32, class: u8) -> Feed<M> {
    let mut items = [(0u8, 0u8, 0u8); M];
    let mut j = 0;
    while j < M {
        let prio = if unsafe { crate::gen::FLAT } { 7 } else { sym::u8() };
        items[j] = (key_of(seq, j), sym::u8(), prio);
        j += 1;
    }
    let (lo, hi) = hint(class, M);
    Feed { items, pos: 0, lo, hi }
}

fn pre_state<T: Q, const N: usize>(pre: Pre, tables: Tables) -> (T, Ghost<N>, Tab) {
    let (q, g) = state_keys::<T, N>(pre, tables, iota::<N>());
    let want = Tab::of_ghost(&g);
    (q, g, want)
}

/// last priority wins; the stored item value may be the first or the last one given
/// (C07 leaves it open; that it does not depend on the strategy is `extend_twin`)
fn apply_last_wins<const M: usize>(want: &mut Tab, items: &[(u8, u8, u8); M]) {
    let mut j = 0;
    while j < M {
        let (k, pay, p) = items[j];
        match want.get(k) {
            None => want.set(k, pay, p),
            Some((opay, _)) => {
                want.set(k, opay, p);
                want.allow(k, pay, p);
            }
        }
        j += 1;
    }
}

// ------------------------------------------------------------------------------------
// extend: receiving state of N elements over keys 0..N, M pairs with keys SEQ
// ------------------------------------------------------------------------------------
pub fn extend<T: Q, const N: usize, const M: usize, const SEQ: u32>(pre: Pre, tables: Tables, g: Grp, class: u8) {
    let (mut q, _gh, mut want) = pre_state::<T, N>(pre, tables);
    let f = feed::<M>(SEQ, class);
    let items = f.items;
    q.extend_q(f);
    apply_last_wins(&mut want, &items);
    post(&mut q, &want, g);
}

/// the same pairs through two different legal size_hints (one of which selects the
/// rebuild strategy when N >= 8) give the same contents, item values included
pub fn extend_twin<T: Q, const N: usize, const M: usize, const SEQ: u32>(tables: Tables, class_a: u8, class_b: u8) {
    let (mut a, gh, _want) = pre_state::<T, N>(Pre::Inv, tables);
    let mut b = a.clone();
    let fa = feed::<M>(SEQ, class_a);
    let items = fa.items;
    let (lo, hi) = hint(class_b, M);
    let fb = Feed::<M> { items, pos: 0, lo, hi };
    a.extend_q(fa);
    b.extend_q(fb);
    assert_inv(&a);
    assert_inv(&b);
    assert!(a.len() == b.len(), "HINT: same number of elements whatever the size_hint");
    let mut s = 0;
    while s < N {
        let k = gh.key[s];
        assert!(
            a.get(&k).map(|(i, p)| (i.pay, p.0)) == b.get(&k).map(|(i, p)| (i.pay, p.0)),
            "HINT: outcome of extend does not depend on the size_hint / strategy"
        );
        s += 1;
    }
    let mut j = 0;
    while j < M {
        let k = items[j].0;
        assert!(
            a.get(&k).map(|(i, p)| (i.pay, p.0)) == b.get(&k).map(|(i, p)| (i.pay, p.0)),
            "HINT: outcome of extend does not depend on the size_hint / strategy"
        );
        j += 1;
    }
    cover!(true, "reach: end of harness");
}

// ------------------------------------------------------------------------------------
// FromIterator / From<Vec>: L pairs with keys SEQ (repeats allowed)
// ------------------------------------------------------------------------------------
pub fn from_iter<T: Q, const L: usize, const SEQ: u32>(g: Grp, class: u8) {
    let f = feed::<L>(SEQ, class);
    let items = f.items;
    let mut q = T::from_iter_q(f);
    let mut want = Tab::empty();
    apply_last_wins(&mut want, &items);
    post(&mut q, &want, g);
}

pub fn from_vec<T: Q, const L: usize, const SEQ: u32>(g: Grp) {
    let mut v = Vec::with_capacity(L);
    let mut want = Tab::empty();
    let mut j = 0;
    while j < L {
        let (k, pay, p) = (key_of(SEQ, j), sym::u8(), sym::u8());
        v.push((Item::new(k, pay), Pr(p)));
        // the first pair given for an item is kept
        if !want.has(k) {
            want.set(k, pay, p);
        }
        j += 1;
    }
    let mut q = T::from_vec(v);
    post(&mut q, &want, g);
}

// ------------------------------------------------------------------------------------
// constructors
// ------------------------------------------------------------------------------------
pub fn ctor<T: Q>(which: u8) {
    let mut q = match which {
        0 => T::new_q(),
        1 => T::with_cap(0),
        2 => T::with_cap(1),
        _ => T::with_cap(5),
    };
    let want = Tab::empty();
    if which >= 2 {
        assert!(q.capacity() >= if which == 2 { 1 } else { 5 }, "CAP: with_capacity reserves what was asked for");
    }
    assert!(q.peek_hi().is_none() && q.pop_hi().is_none(), "EMPTY: a fresh queue yields None");
    post(&mut q, &want, crate::step::ALL);
}

// ------------------------------------------------------------------------------------
// append: receiver over keys 0..N, other over keys SEQ (M of them, pairwise distinct)
// ------------------------------------------------------------------------------------
pub fn append<T: Q, const N: usize, const M: usize, const SEQ: u32>(pre: Pre, tables: Tables, g: Grp) {
    let (mut q, _gh, mut want) = pre_state::<T, N>(pre, tables);
    let mut okeys = [0u8; M];
    let mut j = 0;
    while j < M {
        okeys[j] = key_of(SEQ, j);
        j += 1;
    }
    let (mut other, ogh) = state_keys::<T, M>(pre, tables, okeys);
    q.append(&mut other);
    let mut j = 0;
    while j < M {
        let (k, pay, p) = (ogh.key[j], ogh.pay[j], ogh.prio[j]);
        match want.get(k) {
            None => want.set(k, pay, p),
            Some(_) => {
                // clash: the receiver's pair stays unless the other queue was longer,
                // when either may stay
                if M > N {
                    want.allow(k, pay, p);
                }
            }
        }
        j += 1;
    }
    post(&mut q, &want, g);
    // the other queue is empty and consistent
    let empty = Tab::empty();
    post(&mut other, &empty, Grp { st: true, ord: false, model: true, pay: true });
    assert!(other.peek_hi().is_none(), "APPEND: the other queue is left empty");
}

// ------------------------------------------------------------------------------------
// conversion to the other queue kind
// ------------------------------------------------------------------------------------
pub fn convert<T: Q, const N: usize>(pre: Pre, tables: Tables, g: Grp) {
    let (q, gh) = crate::gen::state::<T, N>(pre, tables);
    let want = Tab::of_ghost(&gh);
    let mut o = q.into_other();
    post(&mut o, &want, g);
}

// ------------------------------------------------------------------------------------
// the constructors that exist only with the default randomly keyed hasher (std):
// `new()` and `with_capacity()`
// ------------------------------------------------------------------------------------
pub trait StdCtor: Q {
    fn std_new() -> Self;
    fn std_with_capacity(c: usize) -> Self;
}
impl StdCtor for crate::q::Pq<std::collections::hash_map::RandomState> {
    fn std_new() -> Self {
        Self::new()
    }
    fn std_with_capacity(c: usize) -> Self {
        Self::with_capacity(c)
    }
}
impl StdCtor for crate::q::Dq<std::collections::hash_map::RandomState> {
    fn std_new() -> Self {
        Self::new()
    }
    fn std_with_capacity(c: usize) -> Self {
        Self::with_capacity(c)
    }
}

pub fn ctor_std<T: StdCtor>(which: u8) {
    let mut q = match which {
        0 => T::std_new(),
        1 => T::std_with_capacity(0),
        _ => T::std_with_capacity(5),
    };
    if which >= 2 {
        assert!(q.capacity() >= 5, "CAP: with_capacity reserves what was asked for");
    }
    assert!(q.peek_hi().is_none() && q.pop_hi().is_none(), "EMPTY: a fresh queue yields None");
    let mut want = Tab::empty();
    post(&mut q, &want, crate::step::ALL);
    // and it works: two pushes (same or different items), then the maximum comes out
    let (k1, k2) = (sym::below(4), sym::below(4));
    let (p1, p2) = (sym::u8(), sym::u8());
    assert!(q.push(Item::new(k1, 1), Pr(p1)).is_none());
    want.set(k1, 1, p1);
    let r = q.push(Item::new(k2, 2), Pr(p2));
    assert!(r.map(|x| x.0) == if k1 == k2 { Some(p1) } else { None }, "RET: push returns the previous priority or None");
    if k1 == k2 {
        want.set(k2, 1, p2);
    } else {
        want.set(k2, 2, p2);
    }
    post(&mut q, &want, crate::step::ALL);
}
