//! C05: number of `Ord` calls on the priority type made by one operation, from every
//! heap-ordered state of the given size, against the single-path budget (DESIGN.md §5).

use crate::cover;
use crate::gen::{state, Pre, Tables};
use crate::hook;
use crate::q::Q;
use crate::sym;
use crate::types::{Item, Pr, KEYS};

pub const OP_PUSH: u8 = 0;
pub const OP_CHANGE: u8 = 1;
pub const OP_CHANGE_BY: u8 = 2;
pub const OP_REMOVE: u8 = 3;
pub const OP_POP_HI: u8 = 4;
pub const OP_POP_LO: u8 = 5;
pub const OP_POP_HI_IF: u8 = 6;
pub const OP_POP_LO_IF: u8 = 7;
pub const OP_PUSH_INC: u8 = 8;
pub const OP_PUSH_DEC: u8 = 9;
pub const OP_PEEK_HI: u8 = 10;
pub const OP_PEEK_LO: u8 = 11;
pub const OP_LOOKUPS: u8 = 12;
pub const OP_REBUILD: u8 = 13;

const fn log2(n: usize) -> u32 {
    if n == 0 {
        0
    } else {
        usize::BITS - 1 - n.leading_zeros()
    }
}

/// The budget: what one sift-up plus one sift-down along a single root-to-leaf path may
/// cost in a heap of `n` elements (n = largest size during the operation).
pub const fn budget(double: bool, op: u8, n: usize) -> u32 {
    let l = log2(n);
    if op == OP_PEEK_LO || op == OP_LOOKUPS {
        return 0;
    }
    if op == OP_PEEK_HI {
        return if double { 1 } else { 0 };
    }
    if op == OP_REBUILD {
        // Floyd: at most 2n (max-heap) / 7n (min-max heap: <= 5 + 2 per trickle step)
        return if double { 7 * n as u32 } else { 2 * n as u32 };
    }
    let extra = if op == OP_PUSH_INC || op == OP_PUSH_DEC { 1 } else { 0 };
    if !double {
        // sift-up: 1 per level; sift-down: 2 per level; one spare comparison
        if op == OP_POP_HI || op == OP_POP_HI_IF {
            // extraction only sifts down
            2 * l + 1
        } else {
            // updates and removal may sift either way (push of a new item only up)
            3 * l + 1 + extra
        }
    } else {
        // bubble-up: 1 + ceil(l/2); one trickle-down: 7 per two levels; the operations
        // that may move an element either way re-sift at most two positions;
        // find_max costs one more
        let half = (l + 1) / 2;
        let up = 1 + half;
        let down = 7 * half;
        if op == OP_POP_LO {
            down
        } else if op == OP_POP_HI {
            1 + down
        } else if op == OP_POP_LO_IF {
            down
        } else {
            // pop_max_if goes through up_heapify like the updates
            1 + up + 2 * down + extra
        }
    }
}

pub fn cost<T: Q, const N: usize>(op: u8, tables: Tables) {
    let (mut q, _gh) = state::<T, N>(Pre::Inv, tables);
    let k = tables.pick_key();
    let p = sym::u8();
    let verdict = sym::bool();
    hook::start_count(hook::CB_CMP);
    let nmax = match op {
        OP_PUSH | OP_PUSH_INC | OP_PUSH_DEC => N + 1,
        _ => N,
    };
    match op {
        OP_PUSH => {
            q.push(Item::new(k, 0), Pr(p));
        }
        OP_PUSH_INC => {
            q.push_increase(Item::new(k, 0), Pr(p));
        }
        OP_PUSH_DEC => {
            q.push_decrease(Item::new(k, 0), Pr(p));
        }
        OP_CHANGE => {
            q.change_priority(&k, Pr(p));
        }
        OP_CHANGE_BY => {
            q.change_priority_by(&k, |x| x.0 = p);
        }
        OP_REMOVE => {
            q.remove(&k);
        }
        OP_POP_HI => {
            q.pop_hi();
        }
        OP_POP_LO => {
            q.pop_lo();
        }
        OP_POP_HI_IF => {
            q.pop_hi_if(|_, x| {
                x.0 = p;
                verdict
            });
        }
        OP_POP_LO_IF => {
            q.pop_lo_if(|_, x| {
                x.0 = p;
                verdict
            });
        }
        OP_PEEK_HI => {
            let _ = q.peek_hi().map(|(i, _)| i.key);
            assert!(hook::calls() <= budget(T::DOUBLE, op, nmax), "COST: peek/peek_max within its budget");
            hook::start_count(hook::CB_CMP);
            let _ = q.peek_hi_mut().map(|(i, _)| i.key);
        }
        OP_PEEK_LO => {
            let _ = q.peek_lo().map(|(i, _)| i.key);
            assert!(hook::calls() <= budget(T::DOUBLE, op, nmax), "COST: peek_min within its budget");
            hook::start_count(hook::CB_CMP);
            let _ = q.peek_lo_mut().map(|(i, _)| i.key);
        }
        OP_LOOKUPS => {
            let _ = q.len();
            let _ = q.is_empty();
            let _ = q.get(&k).map(|(i, _)| i.key);
            let _ = q.get_priority(&k).map(|x| x.0);
            let _ = q.get_mut(&k).map(|(i, _)| i.key);
            let _ = q.capacity();
        }
        _ => {
            // a rebuild of the whole heap (dropping an untouched iter_mut)
            let it = q.iter_mut_q();
            drop(it);
        }
    }
    let c = hook::calls();
    hook::stop();
    let b = budget(T::DOUBLE, op, nmax);
    assert!(c <= b, "COST: number of priority comparisons within the single-path budget");
    cover!(c == b, "budget is attained");
    cover!(true, "reach: end of harness");
    let _ = KEYS;
}
