//! C05: number of `Ord` calls on the priority type made by one operation, from every
//! heap-ordered state of the given size, against the single-path budget (DESIGN.md §5).

use crate::cover;
use crate::gen::{state, Pre, Tables};
use crate::hook;
use crate::q::Q;
use crate::sym;
use crate::types::{Item, Pr, KEYS};

pub const OP_PUSH: u8 = 0;
pub const OP_CHANGE: u8 = 1;
pub const OP_CHANGE_BY: u8 = 2;
pub const OP_REMOVE: u8 = 3;
pub const OP_POP_HI: u8 = 4;
pub const OP_POP_LO: u8 = 5;
pub const OP_POP_HI_IF: u8 = 6;
pub const OP_POP_LO_IF: u8 = 7;
pub const OP_PUSH_INC: u8 = 8;
pub const OP_PUSH_DEC: u8 = 9;
pub const OP_PEEK_HI: u8 = 10;
pub const OP_PEEK_LO: u8 = 11;
pub const OP_LOOKUPS: u8 = 12;
pub const OP_REBUILD: u8 = 13;

/// depth of a heap position (root = 0)
pub fn depth(pos: usize) -> u32 {
    usize::BITS - 1 - (pos + 1).leading_zeros()
}

/// number of levels below `pos` in a heap of `n` elements (0 for a leaf or a position
/// outside the heap): the longest downward path starts with left children
pub fn levels_below(pos: usize, n: usize) -> u32 {
    // (pos+1)*2^h - 1 is the leftmost descendant h levels down; a fixed number of rounds
    // (unrolled by hand: no loop to unwind) so that a symbolic position does not fork the execution
    let mut h = 0;
    let mut m = pos + 1;
    macro_rules! round {
        () => {
            if 2 * m <= n {
                m *= 2;
                h += 1;
            }
        };
    }
    round!();
    round!();
    round!();
    round!();
    round!();
    round!();
    assert!(2 * m > n, "harness: levels_below covers heaps below 64 elements");
    h
}

/// One sift-up from depth `d`: a max-heap compares with one ancestor per level; the min-max
/// heap with the parent once and then with every second ancestor.
fn up(double: bool, d: u32) -> u32 {
    if !double {
        d
    } else if d == 0 {
        0
    } else {
        1 + d / 2
    }
}

/// One sift-down over `h` levels: a max-heap makes two comparisons per level; the min-max
/// heap handles two levels per round with at most seven (five to find the extreme of up to
/// six candidates, one against the sifted element, one against the parent).
fn down(double: bool, h: u32) -> u32 {
    if !double {
        2 * h
    } else {
        7 * ((h + 1) / 2)
    }
}

/// The single-path budget of an operation, *as a function of the heap position it addresses*:
/// an update or removal at `pos` may sift the element up from the depth of `pos` **or** down
/// over the levels below `pos`, never both over their full length -- after a move up, the
/// check at the new position (and, in the min-max heap, at the old one) is one round.
/// `n` = number of elements while the sift runs. `slack` covers an implementation that looks
/// before it sifts (one comparison to pick the direction, one spare).
pub fn budget_at(double: bool, op: u8, pos: Option<usize>, n: usize) -> u32 {
    let slack = 2;
    let round = down(double, if double { 2 } else { 1 });
    let either = |pos: usize, n: usize| -> u32 {
        let d = depth(pos);
        let moved_up = up(double, d) + round + if double { round } else { 0 };
        let moved_down = if d > 0 { 1 } else { 0 } + down(double, levels_below(pos, n));
        (if moved_up > moved_down { moved_up } else { moved_down }) + slack
    };
    match op {
        OP_PEEK_LO | OP_LOOKUPS => 0,
        OP_PEEK_HI => {
            if double {
                1
            } else {
                0
            }
        }
        OP_REBUILD => {
            // Floyd: one sift-down per internal node
            let mut b = 0;
            let mut i = 0;
            while 2 * i + 1 < n {
                b += down(double, levels_below(i, n));
                i += 1;
            }
            b
        }
        OP_PUSH | OP_PUSH_INC | OP_PUSH_DEC => match pos {
            // a new element enters at position n-1 (n counts it) and can only rise
            None => up(double, depth(n - 1)) + 1,
            Some(p) => either(p, n) + if op == OP_PUSH { 0 } else { 1 },
        },
        OP_CHANGE | OP_CHANGE_BY => match pos {
            None => 0,
            Some(p) => either(p, n),
        },
        OP_REMOVE => match pos {
            None => 0,
            // n counts the removed element; the last element takes its place
            Some(p) => {
                if p + 1 >= n {
                    1
                } else {
                    either(p, n - 1)
                }
            }
        },
        OP_POP_HI | OP_POP_LO => {
            if n <= 1 {
                0
            } else if double && op == OP_POP_HI {
                // one comparison finds the maximum among positions 1 and 2
                1 + down(double, levels_below(1, n - 1)) + 1
            } else {
                down(double, levels_below(0, n - 1)) + 1
            }
        }
        OP_POP_LO_IF => down(double, levels_below(0, n)) + 1,
        _ => {
            // OP_POP_HI_IF: the max-heap re-sifts the root down; the min-max heap finds the
            // maximum and re-sifts it either way
            if !double {
                down(double, levels_below(0, n)) + 1
            } else if n <= 1 {
                1
            } else {
                1 + either(1, n)
            }
        }
    }
}

pub fn cost<T: Q, const N: usize>(op: u8, tables: Tables) {
    let (mut q, gh) = state::<T, N>(Pre::Inv, tables);
    let k = tables.pick_key();
    // heap position of the addressed element (None: the key is absent)
    let mut pos: Option<usize> = None;
    let mut s = 0;
    while s < N {
        if gh.key[s] == k {
            pos = Some(gh.qp[s]);
        }
        s += 1;
    }
    let p = sym::u8();
    let verdict = sym::bool();
    hook::start_count(hook::CB_CMP);
    let nmax = match op {
        OP_PUSH | OP_PUSH_INC | OP_PUSH_DEC if pos.is_none() => N + 1,
        _ => N,
    };
    match op {
        OP_PUSH => {
            q.push(Item::new(k, 0), Pr(p));
        }
        OP_PUSH_INC => {
            q.push_increase(Item::new(k, 0), Pr(p));
        }
        OP_PUSH_DEC => {
            q.push_decrease(Item::new(k, 0), Pr(p));
        }
        OP_CHANGE => {
            q.change_priority(&k, Pr(p));
        }
        OP_CHANGE_BY => {
            q.change_priority_by(&k, |x| x.0 = p);
        }
        OP_REMOVE => {
            q.remove(&k);
        }
        OP_POP_HI => {
            q.pop_hi();
        }
        OP_POP_LO => {
            q.pop_lo();
        }
        OP_POP_HI_IF => {
            q.pop_hi_if(|_, x| {
                x.0 = p;
                verdict
            });
        }
        OP_POP_LO_IF => {
            q.pop_lo_if(|_, x| {
                x.0 = p;
                verdict
            });
        }
        OP_PEEK_HI => {
            let _ = q.peek_hi().map(|(i, _)| i.key);
            assert!(hook::calls() <= budget_at(T::DOUBLE, op, pos, nmax), "COST: peek/peek_max within its budget");
            hook::start_count(hook::CB_CMP);
            let _ = q.peek_hi_mut().map(|(i, _)| i.key);
        }
        OP_PEEK_LO => {
            let _ = q.peek_lo().map(|(i, _)| i.key);
            assert!(hook::calls() <= budget_at(T::DOUBLE, op, pos, nmax), "COST: peek_min within its budget");
            hook::start_count(hook::CB_CMP);
            let _ = q.peek_lo_mut().map(|(i, _)| i.key);
        }
        OP_LOOKUPS => {
            let _ = q.len();
            let _ = q.is_empty();
            let _ = q.get(&k).map(|(i, _)| i.key);
            let _ = q.get_priority(&k).map(|x| x.0);
            let _ = q.get_mut(&k).map(|(i, _)| i.key);
            let _ = q.capacity();
        }
        _ => {
            // a rebuild of the whole heap (dropping an untouched iter_mut)
            let it = q.iter_mut_q();
            drop(it);
        }
    }
    let c = hook::calls();
    hook::stop();
    let b = budget_at(T::DOUBLE, op, pos, nmax);
    assert!(c <= b, "COST: number of priority comparisons within the single-path budget");
    cover!(c == b, "budget is attained");
    cover!(true, "reach: end of harness");
    let _ = KEYS;
}

// ------------------------------------------------------------------------------------
// the bulk operations that re-establish order: one Floyd rebuild, i.e. one sift-down per
// internal node (the sum over the internal nodes of their sift-down budgets is O(n))
// ------------------------------------------------------------------------------------
pub const B_FROM_VEC: u8 = 0;
pub const B_FROM_ITER: u8 = 1;
pub const B_RETAIN: u8 = 2;
pub const B_RETAIN_MUT: u8 = 3;
pub const B_CONVERT: u8 = 4;
pub const B_APPEND: u8 = 5;
pub const B_ITER_MUT: u8 = 6;
/// append of a queue as long as the receiver (N + N elements)
pub const B_APPEND_EQ: u8 = 7;

pub fn cost_bulk<T: Q, const N: usize>(which: u8, tables: Tables) {
    let mut double = T::DOUBLE;
    let mut n_final = N;
    let c;
    match which {
        B_FROM_VEC | B_FROM_ITER => {
            let mut v = Vec::with_capacity(N);
            let mut j = 0;
            while j < N {
                v.push((Item::new(j as u8, 0), Pr(sym::u8())));
                j += 1;
            }
            hook::start_count(hook::CB_CMP);
            let q = if which == B_FROM_VEC { T::from_vec(v) } else { T::from_iter_q(v) };
            c = hook::calls();
            hook::stop();
            assert!(q.len() == N);
        }
        B_CONVERT => {
            let (q, _gh) = state::<T, N>(Pre::Inv, tables);
            double = !T::DOUBLE;
            hook::start_count(hook::CB_CMP);
            let o = q.into_other();
            c = hook::calls();
            hook::stop();
            assert!(o.len() == N);
        }
        B_APPEND_EQ => {
            let (mut q, _gh) = crate::gen::state_keys::<T, N>(Pre::Inv, tables, crate::gen::iota::<N>());
            let mut okeys = [0u8; N];
            let mut j = 0;
            while j < N {
                okeys[j] = (N + j) as u8;
                j += 1;
            }
            let (mut other, _ogh) = crate::gen::state_keys::<T, N>(Pre::Inv, tables, okeys);
            n_final = 2 * N;
            hook::start_count(hook::CB_CMP);
            q.append(&mut other);
            c = hook::calls();
            hook::stop();
            assert!(q.len() == 2 * N);
        }
        B_APPEND => {
            let (mut q, _gh) = crate::gen::state_keys::<T, N>(Pre::Inv, tables, crate::gen::iota::<N>());
            let (mut other, _ogh) = crate::gen::state_keys::<T, 1>(Pre::Inv, tables, [N as u8]);
            n_final = N + 1;
            hook::start_count(hook::CB_CMP);
            q.append(&mut other);
            c = hook::calls();
            hook::stop();
            assert!(q.len() == N + 1);
        }
        _ => {
            let (mut q, _gh) = state::<T, N>(Pre::Inv, tables);
            let w = sym::u8();
            hook::start_count(hook::CB_CMP);
            match which {
                B_RETAIN => q.retain(|_, _| true),
                B_RETAIN_MUT => q.retain_mut(|_, p| {
                    p.0 = p.0.wrapping_mul(w);
                    true
                }),
                _ => {
                    let mut it = q.iter_mut_q();
                    while let Some((_, p)) = it.next() {
                        p.0 = p.0.wrapping_mul(w);
                    }
                    drop(it);
                }
            }
            c = hook::calls();
            hook::stop();
            assert!(q.len() == N);
        }
    }
    let b = budget_at(double, OP_REBUILD, None, n_final);
    assert!(c <= b, "COST: a rebuild makes at most one sift-down per internal node (O(n) comparisons)");
    cover!(c == b, "budget is attained");
    cover!(true, "reach: end of harness");
}
