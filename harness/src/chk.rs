//! Predicates over the raw snapshot of a queue and the reference table
//! (a direct-address table over the key universe) that return values and contents are
//! compared with.

use crate::gen::{level, parent, Ghost};
use crate::q::Q;
use crate::types::KEYS;

pub const U: usize = KEYS as usize;

/// STRUCT: all lengths agree with `len()`, the tables are mutually inverse.
pub fn assert_struct<T: Q>(q: &T) {
    let l = q.s_heap_len();
    assert!(q.s_qp_len() == l, "STRUCT: qp.len() == heap.len()");
    assert!(q.s_map_len() == l, "STRUCT: map.len() == heap.len()");
    assert!(q.s_size() == l, "STRUCT: size == heap.len()");
    assert!(q.len() == l, "STRUCT: len() == heap.len()");
    assert!(q.is_empty() == (l == 0), "STRUCT: is_empty() == (len == 0)");
    let mut pos = 0;
    while pos < l {
        let slot = q.s_heap(pos).unwrap();
        assert!(slot < l, "STRUCT: heap[pos] < len");
        assert!(q.s_qp(slot) == Some(pos), "STRUCT: qp[heap[pos]] == pos");
        pos += 1;
    }
}

/// priority stored at heap position `pos` (requires STRUCT)
pub fn prio_at<T: Q>(q: &T, pos: usize) -> u8 {
    let slot = q.s_heap(pos).unwrap();
    (q.s_slot(slot).unwrap().1).0
}

/// ORD_K over the raw tables (requires STRUCT)
pub fn assert_ord<T: Q>(q: &T) {
    let l = q.s_heap_len();
    let mut pos = 1;
    while pos < l {
        let x = prio_at(q, pos);
        let p = parent(pos);
        let px = prio_at(q, p);
        if !T::DOUBLE {
            assert!(px >= x, "ORD: parent >= child (max-heap)");
        } else {
            if level(p) % 2 == 0 {
                assert!(px <= x, "ORD: min-level parent <= child");
            } else {
                assert!(px >= x, "ORD: max-level parent >= child");
            }
            if p > 0 {
                let g = parent(p);
                let gx = prio_at(q, g);
                if level(g) % 2 == 0 {
                    assert!(gx <= x, "ORD: min-level grandparent <= grandchild");
                } else {
                    assert!(gx >= x, "ORD: max-level grandparent >= grandchild");
                }
            }
        }
        pos += 1;
    }
}

pub fn assert_inv<T: Q>(q: &T) {
    assert_struct(q);
    assert_ord(q);
}

/// Reference contents: key -> (payload, priority). A direct-address table over the
/// key universe; membership is a bit mask so that no operation on it needs a loop
/// over the universe.
#[derive(Clone, Copy)]
pub struct Tab {
    pub mask: u32,
    pub cnt: usize,
    pub pay: [u8; U],
    pub prio: [u8; U],
    /// keys for which a second (payload, priority) pair is acceptable as well (where the
    /// property leaves the choice open)
    pub altmask: u32,
    pub altpay: [u8; U],
    pub altprio: [u8; U],
    /// keys whose stored item value (the part outside Eq/Hash) is not this check's
    /// business: what happens to the item value of the element an update targets is
    /// property C12's, and only C12's instances compare it
    pub anypay: u32,
}

impl Tab {
    pub fn empty() -> Self {
        Tab {
            mask: 0,
            cnt: 0,
            pay: [0; U],
            prio: [0; U],
            altmask: 0,
            altpay: [0; U],
            altprio: [0; U],
            anypay: 0,
        }
    }

    /// do not compare the stored item value of `k`
    pub fn any_payload(&mut self, k: u8) {
        self.anypay |= 1u32 << k;
    }

    /// `k` may also hold (pay, prio)
    pub fn allow(&mut self, k: u8, pay: u8, prio: u8) {
        self.altmask |= 1u32 << k;
        self.altpay[k as usize] = pay;
        self.altprio[k as usize] = prio;
    }

    /// is (pay, prio) an acceptable content for key `k`
    pub fn accepts(&self, k: u8, pay: u8, prio: u8) -> bool {
        if !self.has(k) {
            return false;
        }
        let ku = k as usize;
        (self.pay[ku] == pay && self.prio[ku] == prio)
            || (self.altmask & (1u32 << k) != 0 && self.altpay[ku] == pay && self.altprio[ku] == prio)
    }

    pub fn of_ghost<const N: usize>(g: &Ghost<N>) -> Self {
        let mut t = Tab::empty();
        let mut s = 0;
        while s < N {
            t.set(g.key[s], g.pay[s], g.prio[s]);
            s += 1;
        }
        t
    }

    #[inline(always)]
    pub fn has(&self, k: u8) -> bool {
        self.mask & (1u32 << k) != 0
    }

    pub fn count(&self) -> usize {
        self.cnt
    }

    pub fn get(&self, k: u8) -> Option<(u8, u8)> {
        if self.has(k) {
            Some((self.pay[k as usize], self.prio[k as usize]))
        } else {
            None
        }
    }

    pub fn set(&mut self, k: u8, pay: u8, prio: u8) {
        if !self.has(k) {
            self.cnt += 1;
        }
        self.mask |= 1u32 << k;
        self.pay[k as usize] = pay;
        self.prio[k as usize] = prio;
    }

    pub fn del(&mut self, k: u8) {
        if self.has(k) {
            self.cnt -= 1;
        }
        self.mask &= !(1u32 << k);
    }
}

/// CONT(q) == expected, read through the raw slots: every slot holds a key of the
/// reference with the reference's payload and priority, no key twice, same count.
pub fn assert_cont<T: Q>(q: &T, want: &Tab) {
    let l = q.s_map_len();
    assert!(l == want.count(), "CONT: as many stored elements as the reference");
    let mut seen: u32 = 0;
    let mut s = 0;
    while s < l {
        let (i, p) = q.s_slot(s).unwrap();
        assert!(i.key < KEYS, "CONT: key inside the universe");
        assert!(seen & (1u32 << i.key) == 0, "CONT: no key stored twice");
        seen |= 1u32 << i.key;
        match want.get(i.key) {
            None => assert!(false, "CONT: stored key is in the reference"),
            Some((pay, prio)) => {
                if want.altmask & (1u32 << i.key) == 0 {
                    assert!(p.0 == prio, "CONT: same priority as the reference");
                    assert!(
                        i.pay == pay || want.anypay & (1u32 << i.key) != 0,
                        "CONT: same stored item value as the reference"
                    );
                } else {
                    assert!(want.accepts(i.key, i.pay, p.0), "CONT: one of the pairs the reference allows");
                }
            }
        }
        s += 1;
    }
}

/// the public read API agrees with the reference for the key `k`
pub fn assert_lookup<T: Q>(q: &mut T, want: &Tab, k: u8) {
    if want.altmask & (1u32 << k) != 0 {
        match q.get(&k) {
            None => assert!(false, "API: get presence agrees with the reference"),
            Some((i, p)) => assert!(i.key == k && want.accepts(k, i.pay, p.0), "API: get returns one of the pairs the reference allows"),
        }
        assert!(q.len() == want.count(), "API: len() is the number of distinct items");
        return;
    }
    let w = want.get(k);
    match (q.get(&k), w) {
        (None, None) => {}
        (Some((i, p)), Some((pay, prio))) => {
            assert!(i.key == k, "API: get returns the item asked for");
            assert!(i.pay == pay || want.anypay & (1u32 << k) != 0, "API: get returns the stored item value");
            assert!(p.0 == prio, "API: get returns the stored priority");
        }
        _ => assert!(false, "API: get presence agrees with the reference"),
    }
    assert!(
        q.get_priority(&k).map(|p| p.0) == w.map(|x| x.1),
        "API: get_priority agrees with the reference"
    );
    let anyp = want.anypay & (1u32 << k) != 0;
    assert!(
        q.get_mut(&k).map(|(i, p)| (i.key, if anyp { 0 } else { i.pay }, p.0)) == w.map(|x| (k, if anyp { 0 } else { x.0 }, x.1)),
        "API: get_mut agrees with the reference"
    );
    assert!(q.len() == want.count(), "API: len() is the number of distinct items");
    assert!(q.is_empty() == (want.count() == 0), "API: is_empty() agrees with len()");
}
