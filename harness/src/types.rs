//! Carrier types the crate is instantiated with (DESIGN.md §3.3).

use core::cmp::Ordering;
use core::hash::{BuildHasher, Hash, Hasher};
use std::borrow::Borrow;

use crate::hook;

/// Size of the key universe (keys are `0..KEYS`).
pub const KEYS: u8 = 32;

/// Item = key that takes part in Eq/Hash + payload that does not.
#[derive(Clone, Copy, Debug)]
pub struct Item {
    pub key: u8,
    pub pay: u8,
}

impl Item {
    pub fn new(key: u8, pay: u8) -> Self {
        Item { key, pay }
    }
}

impl PartialEq for Item {
    fn eq(&self, other: &Self) -> bool {
        hook::user_callback(hook::CB_EQ);
        self.key == other.key
    }
}
impl Eq for Item {}

impl Hash for Item {
    fn hash<H: Hasher>(&self, state: &mut H) {
        hook::user_callback(hook::CB_HASH);
        state.write_u8(self.key);
    }
}

impl Borrow<u8> for Item {
    fn borrow(&self) -> &u8 {
        &self.key
    }
}

/// Priority: a `u8` whose comparisons are observable (counted / crash point).
#[derive(Clone, Copy, Debug)]
pub struct Pr(pub u8);

impl Ord for Pr {
    fn cmp(&self, other: &Self) -> Ordering {
        hook::user_callback(hook::CB_CMP);
        self.0.cmp(&other.0)
    }
}
impl PartialOrd for Pr {
    fn partial_cmp(&self, other: &Self) -> Option<Ordering> {
        Some(self.cmp(other))
    }
}
impl PartialEq for Pr {
    fn eq(&self, other: &Self) -> bool {
        self.0 == other.0
    }
}
impl Eq for Pr {}

/// Hasher that returns the last byte written (identity on `u8` keys).
#[derive(Clone, Copy, Default, Debug)]
pub struct IdHasher(u64);

impl Hasher for IdHasher {
    fn finish(&self) -> u64 {
        self.0
    }
    fn write(&mut self, bytes: &[u8]) {
        let mut i = 0;
        while i < bytes.len() {
            self.0 = (self.0 << 8) | bytes[i] as u64;
            i += 1;
        }
    }
    fn write_u8(&mut self, b: u8) {
        self.0 = b as u64;
    }
}

#[derive(Clone, Copy, Default, Debug)]
pub struct IdBuild;

impl BuildHasher for IdBuild {
    type Hasher = IdHasher;
    fn build_hasher(&self) -> IdHasher {
        IdHasher(0)
    }
}

/// Hasher whose `finish()` is a fresh unconstrained value on every call: the crate
/// may not depend on any hash value, consistent or not (C18).
#[derive(Clone, Copy, Default, Debug)]
pub struct NondetHasher;

impl Hasher for NondetHasher {
    fn finish(&self) -> u64 {
        crate::sym::u64()
    }
    fn write(&mut self, _bytes: &[u8]) {}
    fn write_u8(&mut self, _b: u8) {}
}

#[derive(Clone, Copy, Default, Debug)]
pub struct NondetBuild;

impl BuildHasher for NondetBuild {
    type Hasher = NondetHasher;
    fn build_hasher(&self) -> NondetHasher {
        NondetHasher
    }
}

/// Hasher with per-instance state, like std's `RandomState`: every `default()` draws a fresh
/// (symbolic) key, a clone keeps it. Two queues built independently hash the same item
/// differently; each map is consistent with itself.
#[derive(Clone, Copy, Debug)]
pub struct KeyedBuild {
    pub seed: u8,
}
impl Default for KeyedBuild {
    fn default() -> Self {
        KeyedBuild { seed: crate::sym::u8() }
    }
}
#[derive(Clone, Copy, Debug)]
pub struct KeyedHasher {
    seed: u64,
    acc: u64,
}
impl Hasher for KeyedHasher {
    fn finish(&self) -> u64 {
        // injective in (key, seed) and free of multiplication (a product with a symbolic
        // factor is what a bit-blasting solver cannot afford)
        self.acc ^ self.seed ^ (self.seed << 8) ^ (self.seed << 57)
    }
    fn write(&mut self, bytes: &[u8]) {
        let mut i = 0;
        while i < bytes.len() {
            self.acc = (self.acc << 8) | bytes[i] as u64;
            i += 1;
        }
    }
    fn write_u8(&mut self, b: u8) {
        self.acc = b as u64;
    }
}
impl BuildHasher for KeyedBuild {
    type Hasher = KeyedHasher;
    fn build_hasher(&self) -> KeyedHasher {
        KeyedHasher { seed: self.seed as u64, acc: 0 }
    }
}

/// what the map model needs to know about a hasher type
pub trait HashKind {
    /// deterministic per instance: the model checks the contract of caller-supplied hashes
    const PER_INSTANCE: bool = false;
}
impl HashKind for IdBuild {}
impl HashKind for std::collections::hash_map::RandomState {}
impl HashKind for NondetBuild {}
impl HashKind for ConstBuild {}
impl HashKind for RevBuild {}
impl HashKind for KeyedBuild {
    const PER_INSTANCE: bool = true;
}

/// Concrete hashers for the REALMAP family.
#[derive(Clone, Copy, Default, Debug)]
pub struct ConstHasher;
impl Hasher for ConstHasher {
    fn finish(&self) -> u64 {
        0x5555_5555_5555_5555
    }
    fn write(&mut self, _bytes: &[u8]) {}
}
#[derive(Clone, Copy, Default, Debug)]
pub struct ConstBuild;
impl BuildHasher for ConstBuild {
    type Hasher = ConstHasher;
    fn build_hasher(&self) -> ConstHasher {
        ConstHasher
    }
}

#[derive(Clone, Copy, Default, Debug)]
pub struct RevHasher(u64);
impl Hasher for RevHasher {
    fn finish(&self) -> u64 {
        self.0.reverse_bits()
    }
    fn write(&mut self, bytes: &[u8]) {
        let mut i = 0;
        while i < bytes.len() {
            self.0 = (self.0 << 8) | bytes[i] as u64;
            i += 1;
        }
    }
    fn write_u8(&mut self, b: u8) {
        self.0 = b as u64;
    }
}
#[derive(Clone, Copy, Default, Debug)]
pub struct RevBuild;
impl BuildHasher for RevBuild {
    type Hasher = RevHasher;
    fn build_hasher(&self) -> RevHasher {
        RevHasher(0)
    }
}

// ---- serde: an Item travels as the 2-tuple (key, payload), a priority as one u8. (Packing
// ---- key and payload into one integer would hide the concrete key from the solver's
// ---- constant propagation and make table lengths symbolic after deserialization.)
impl serde::Serialize for Item {
    fn serialize<S: serde::Serializer>(&self, s: S) -> Result<S::Ok, S::Error> {
        use serde::ser::SerializeTuple;
        let mut t = s.serialize_tuple(2)?;
        t.serialize_element(&self.key)?;
        t.serialize_element(&self.pay)?;
        t.end()
    }
}
impl<'de> serde::Deserialize<'de> for Item {
    fn deserialize<D: serde::Deserializer<'de>>(d: D) -> Result<Self, D::Error> {
        let (key, pay) = <(u8, u8)>::deserialize(d)?;
        Ok(Item::new(key, pay))
    }
}
impl serde::Serialize for Pr {
    fn serialize<S: serde::Serializer>(&self, s: S) -> Result<S::Ok, S::Error> {
        s.serialize_u8(self.0)
    }
}
impl<'de> serde::Deserialize<'de> for Pr {
    fn deserialize<D: serde::Deserializer<'de>>(d: D) -> Result<Self, D::Error> {
        Ok(Pr(u8::deserialize(d)?))
    }
}

/// stub for `std::hash::RandomState::new` under Kani (its real body reads thread-local keys
/// seeded by a system call): two unconstrained key words
#[cfg(kani)]
pub fn stub_random_state() -> std::collections::hash_map::RandomState {
    let k: (u64, u64) = (kani::any(), kani::any());
    unsafe { core::mem::transmute::<(u64, u64), std::collections::hash_map::RandomState>(k) }
}
