//! iter_mut (C08, C09), the non-mutable iterators (C13), drain (C16) and sorted
//! consumption (C06).

use crate::chk::{assert_inv, assert_struct, Tab};
use crate::cover;
use crate::gen::{state, Ghost, Pre, Tables};
use crate::q::{MutIt, SortedIt, Q};
use crate::step::{post, Grp, ALL};
use crate::sym;
use crate::types::{Item, Pr, KEYS};

const MAXS: usize = 20;

/// Protocol programs may also use the skipping methods `nth` / `nth_back` (which iterator
/// types are free to override): switched on per instance.
pub static mut USE_NTH: bool = false;
pub fn with_nth() {
    unsafe {
        USE_NTH = true;
    }
}
/// one step of a protocol program: (method, j) with method 0 = next, 1 = next_back,
/// 2 = nth(j), 3 = nth_back(j)
fn pick_step(double_ended: bool) -> (u8, usize) {
    if unsafe { USE_NTH } {
        let m = sym::below(4);
        let j = sym::below(3) as usize;
        if double_ended {
            (m, if m >= 2 { j } else { 0 })
        } else {
            (if m >= 2 { 2 } else { 0 }, if m >= 2 { j } else { 0 })
        }
    } else if double_ended && sym::bool() {
        (1, 0)
    } else {
        (0, 0)
    }
}

fn pre_state<T: Q, const N: usize>(pre: Pre, tables: Tables) -> (T, Ghost<N>, Tab) {
    let (q, g) = state::<T, N>(pre, tables);
    let want = Tab::of_ghost(&g);
    (q, g, want)
}

// ------------------------------------------------------------------------------------
// iter_mut: a symbolic number of elements is consumed (from either end where the iterator
// is double-ended, symbolic choice per step), every yielded priority and
// payload is overwritten, then the iterator is dropped (heap rebuilt) or leaked.
// ------------------------------------------------------------------------------------
pub fn iter_mut_prefix<T: Q, const N: usize>(pre: Pre, tables: Tables, g: Grp, forget: bool, via_ref: bool) {
    let (mut q, _gh, want0) = pre_state::<T, N>(pre, tables);
    let c = sym::below(N as u8 + 2) as usize;
    let mut want = want0;
    let mut seen: u32 = 0;
    let mut used_back = false;
    let mut used_front = false;
    {
        let mut it = if via_ref { q.iter_mut_ref() } else { q.iter_mut_q() };
        let mut step = 0;
        while step < N + 1 {
            if step < c {
                // where the iterator offers it, every step is taken from either end
                let back = if <T::IterMut<'_> as MutIt>::DOUBLE_ENDED { sym::bool() } else { false };
                used_back |= back;
                used_front |= !back;
                match if back { it.back() } else { it.next() } {
                    None => assert!(step >= N, "ITER: iter_mut yields every element before None"),
                    Some((i, p)) => {
                        assert!(step < N, "ITER: iter_mut yields no more elements than are stored");
                        let k = i.key & 31;
                        assert!(want0.get(k) == Some((i.pay, p.0)), "ITER: iter_mut yields stored elements");
                        assert!(seen & (1u32 << k) == 0, "ITER: iter_mut yields an element at most once");
                        seen |= 1u32 << k;
                        let w = sym::u8();
                        let wp = sym::u8();
                        p.0 = w;
                        i.pay = wp;
                        want.set(k, wp, w);
                        if !g.pay {
                            want.any_payload(k);
                        }
                    }
                }
            }
            step += 1;
        }
        if forget {
            core::mem::forget(it);
        }
    }
    if forget {
        // order unspecified, safety and contents not
        let g2 = Grp { st: g.st, ord: false, model: g.model, pay: g.pay };
        post(&mut q, &want, g2);
    } else {
        post(&mut q, &want, g);
    }
    cover!(c > 0 && c < N, "proper prefix consumed");
    cover!(c >= N, "everything consumed");
    cover!(c == 0, "nothing consumed");
    cover!(!<T::IterMut<'_> as MutIt>::DOUBLE_ENDED || N == 0 || (used_back && !used_front), "consumed from the back only");
}

// ------------------------------------------------------------------------------------
// C09: protocol of the iter_mut iterator. A symbolic program of N+2 calls of next /
// next_back; before every call the declared exact size is checked; all references
// handed out are pairwise distinct and point at distinct stored elements.
// ------------------------------------------------------------------------------------
pub fn iter_mut_proto<T: Q, const N: usize>(via_ref: bool) {
    let (mut q, _gh, want0) = pre_state::<T, N>(Pre::Inv, Tables::Any);
    let mut pi: [*const Item; MAXS] = [core::ptr::null(); MAXS];
    let mut pp: [*const Pr; MAXS] = [core::ptr::null(); MAXS];
    let mut yielded = 0usize;
    let mut skipped = 0usize;
    let mut seen: u32 = 0;
    let mut used_back = false;
    {
        let mut it = if via_ref { q.iter_mut_ref() } else { q.iter_mut_q() };
        let mut step = 0;
        while step < N + 2 {
            let remaining = N - yielded - skipped;
            if let Some(l) = it.declared_len() {
                // the type declares an exact size (in /repo's current source)
                assert!(l == remaining, "ITER: iter_mut len() is the number of elements still to come");
                assert!(
                    it.size_hint() == (remaining, Some(remaining)),
                    "ITER: iter_mut size_hint() is exact"
                );
                cover!(true, "iter_mut declares an exact size");
            }
            let (mode, sk) = pick_step(<T::IterMut<'_> as MutIt>::DOUBLE_ENDED);
            let back = mode == 1 || mode == 3;
            used_back |= back;
            let r = match mode {
                0 => it.next(),
                1 => it.back(),
                2 => it.nth(sk),
                _ => it.nth_back_q(sk),
            };
            match r {
                None => {
                    assert!(remaining <= sk, "ITER: iter_mut returns None only after every element was yielded");
                    skipped += remaining;
                }
                Some((i, p)) => {
                    assert!(remaining > sk, "ITER: iter_mut yields nothing after exhaustion");
                    skipped += sk;
                    let k = i.key & 31;
                    assert!(want0.get(k) == Some((i.pay, p.0)), "ITER: iter_mut yields stored elements");
                    assert!(seen & (1u32 << k) == 0, "ITER: iter_mut never yields the same element twice");
                    seen |= 1u32 << k;
                    let ai = i as *const Item;
                    let ap = p as *const Pr;
                    let mut j = 0;
                    while j < yielded {
                        assert!(pi[j] != ai && pp[j] != ap, "ITER: mutable references handed out are pairwise distinct");
                        j += 1;
                    }
                    pi[yielded] = ai;
                    pp[yielded] = ap;
                    yielded += 1;
                    // writing through the reference must be fine while the others live
                    p.0 = p.0.wrapping_add(0);
                }
            }
            step += 1;
        }
        assert!(
            yielded + skipped == N && (skipped > 0 || seen == want0.mask),
            "ITER: exhausting iter_mut yields every element exactly once"
        );
    }
    assert_inv(&q);
    cover!(used_back, "next_back used");
    cover!(true, "reach: end of harness");
}

// ------------------------------------------------------------------------------------
// C13: protocol of iter / into_iter / drain
// ------------------------------------------------------------------------------------
fn proto<I, F>(mut it: I, n: usize, want0: &Tab, exact: bool, f: F)
where
    I: DoubleEndedIterator + ExactSizeIterator,
    F: Fn(I::Item) -> (u8, u8, u8),
{
    let mut yielded = 0usize;
    let mut skipped = 0usize;
    let mut seen: u32 = 0;
    let mut step = 0;
    let mut used_back = false;
    let mut used_front = false;
    while step < n + 2 {
        let remaining = n - yielded - skipped;
        if exact {
            assert!(it.len() == remaining, "ITER: len() is the number of elements still to come");
            assert!(it.size_hint() == (remaining, Some(remaining)), "ITER: size_hint() is exact");
        }
        let (mode, j) = pick_step(true);
        let back = mode == 1 || mode == 3;
        let r = match mode {
            0 => it.next(),
            1 => it.next_back(),
            2 => it.nth(j),
            _ => it.nth_back(j),
        };
        match r {
            None => {
                assert!(remaining <= j, "ITER: None only after every element was yielded");
                // a skipping call that runs off the end consumes what was left
                skipped += remaining;
            }
            Some(x) => {
                used_back |= back;
                used_front |= !back;
                assert!(remaining > j, "ITER: nothing is yielded after exhaustion");
                skipped += j;
                let (k, pay, prio) = f(x);
                assert!(k < KEYS && want0.get(k) == Some((pay, prio)), "ITER: yields stored elements");
                assert!(seen & (1u32 << k) == 0, "ITER: no element is yielded twice (from either end)");
                seen |= 1u32 << k;
                yielded += 1;
            }
        }
        step += 1;
    }
    assert!(yielded + skipped == n && (skipped > 0 || seen == want0.mask), "ITER: exhausting yields every element exactly once");
    cover!(used_back && used_front, "both ends used");
    cover!(!unsafe { USE_NTH } || n < 2 || skipped > 0, "elements skipped with nth / nth_back");
}

pub fn iter_proto<T: Q, const N: usize>() {
    let (q, _gh, want0) = pre_state::<T, N>(Pre::Inv, Tables::Any);
    proto(q.iter_q(), N, &want0, true, |(i, p)| (i.key, i.pay, p.0));
    cover!(true, "reach: end of harness");
}

/// `for x in &q`
pub fn iter_ref_proto<T: Q, const N: usize>() {
    let (q, _gh, want0) = pre_state::<T, N>(Pre::Inv, Tables::Any);
    proto(q.iter_ref(), N, &want0, true, |(i, p)| (i.key, i.pay, p.0));
    cover!(true, "reach: end of harness");
}

pub fn into_iter_proto<T: Q, const N: usize>() {
    let (q, _gh, want0) = pre_state::<T, N>(Pre::Inv, Tables::Any);
    proto(q.into_iter_q(), N, &want0, true, |(i, p)| (i.key, i.pay, p.0));
    cover!(true, "reach: end of harness");
}

/// `exact`: also check len()/size_hint() (C13); without it only what is yielded (C16)
pub fn drain_proto<T: Q, const N: usize>(exact: bool) {
    let (mut q, _gh, want0) = pre_state::<T, N>(Pre::Inv, Tables::Any);
    proto(q.drain_q(), N, &want0, exact, |(i, p)| (i.key, i.pay, p.0));
    assert_struct(&q);
    assert!(q.len() == 0, "EMPTY: drained queue is empty");
    cover!(true, "reach: end of harness");
}

pub fn into_vec<T: Q, const N: usize>() {
    let (q, gh, want0) = pre_state::<T, N>(Pre::Inv, Tables::Any);
    let v = q.into_vec();
    assert!(v.len() == N, "ITER: into_vec returns every item");
    let mut seen: u32 = 0;
    let mut s = 0;
    while s < N {
        let k = v[s].key & 31;
        assert!(want0.get(k).map(|x| x.0) == Some(v[s].pay), "ITER: into_vec returns stored items");
        assert!(seen & (1u32 << k) == 0, "ITER: into_vec returns every item once");
        seen |= 1u32 << k;
        s += 1;
    }
    let _ = gh;
    cover!(true, "reach: end of harness");
}

// ------------------------------------------------------------------------------------
// C16: drain with a symbolic consumption pattern, then drop or leak; the queue is empty
// and reusable from the moment `drain` was called.
// ------------------------------------------------------------------------------------
pub fn drain<T: Q, const N: usize>(pre: Pre, forget: bool) {
    let (mut q, _gh, want0) = pre_state::<T, N>(pre, Tables::Any);
    let c = sym::below(N as u8 + 2) as usize;
    let mut seen: u32 = 0;
    let mut yielded = 0usize;
    {
        let mut it = q.drain_q();
        let mut step = 0;
        while step < N + 1 {
            if step < c {
                let back = sym::bool();
                let r = if back { it.next_back() } else { it.next() };
                match r {
                    None => assert!(yielded == N, "DRAIN: None only after every element was yielded"),
                    Some((i, p)) => {
                        let k = i.key & 31;
                        assert!(want0.get(k) == Some((i.pay, p.0)), "DRAIN: yields stored elements");
                        assert!(seen & (1u32 << k) == 0, "DRAIN: yields every element at most once");
                        seen |= 1u32 << k;
                        yielded += 1;
                    }
                }
            }
            step += 1;
        }
        if c > N {
            assert!(yielded == N && seen == want0.mask, "DRAIN: full consumption yields every element");
        }
        if forget {
            core::mem::forget(it);
        }
    }
    // empty, consistent, and as good as new
    let mut want = Tab::empty();
    assert!(q.peek_hi().is_none(), "EMPTY: peek is None after drain");
    if T::DOUBLE {
        assert!(q.peek_lo().is_none(), "EMPTY: peek_min is None after drain");
    }
    post(&mut q, &want, ALL);
    assert!(q.pop_hi().is_none(), "EMPTY: pop is None after drain");
    let k = sym::below(KEYS);
    let p = sym::u8();
    let r = q.push(Item::new(k, 7), Pr(p));
    assert!(r.is_none(), "EMPTY: first push after drain inserts");
    want.set(k, 7, p);
    let k2 = sym::below(KEYS);
    let p2 = sym::u8();
    let r2 = q.push(Item::new(k2, 9), Pr(p2));
    assert!(r2.map(|x| x.0) == if k2 == k { Some(p) } else { None }, "EMPTY: refilled queue behaves like a fresh one");
    if k2 == k {
        want.set(k2, 7, p2);
    } else {
        want.set(k2, 9, p2);
    }
    post(&mut q, &want, ALL);
    cover!(c > 0 && c <= N, "partially consumed");
    cover!(c == 0, "not consumed at all");
    cover!(c > N, "fully consumed");
}

// ------------------------------------------------------------------------------------
// C06: sorted consumption
// ------------------------------------------------------------------------------------
pub fn sorted_iter<T: Q, const N: usize>(tables: Tables) {
    let (q, gh, want0) = pre_state::<T, N>(Pre::Inv, tables);
    let mut it = q.into_sorted_iter_q();
    let mut seen: u32 = 0;
    let mut yielded = 0usize;
    let mut skipped = 0usize;
    let mut step = 0;
    let mut used_back = false;
    let mut used_front = false;
    // the last priorities seen from the max side and from the min side (monotonicity is all
    // that can still be said once elements have been skipped with nth / nth_back)
    let mut last_max: Option<u8> = None;
    let mut last_min: Option<u8> = None;
    while step < N + 2 {
        let remaining = N - yielded - skipped;
        if let Some(l) = it.declared_len() {
            assert!(l == remaining, "SORT: len() is the number of elements remaining");
            assert!(it.size_hint() == (remaining, Some(remaining)), "SORT: size_hint() is exact");
        }
        let (mode, sk) = pick_step(T::DOUBLE);
        let back = mode == 1 || mode == 3;
        let r = match mode {
            0 => it.next(),
            1 => it.back(),
            2 => it.nth(sk),
            _ => it.nth_back_q(sk),
        };
        match r {
            None => {
                assert!(remaining <= sk, "SORT: None only after every element was yielded");
                skipped += remaining;
            }
            Some((i, p)) => {
                used_back |= back;
                used_front |= !back;
                assert!(remaining > sk, "SORT: nothing is yielded after exhaustion");
                skipped += sk;
                let k = i.key & 31;
                assert!(want0.get(k) == Some((i.pay, p.0)), "SORT: yields stored elements");
                assert!(seen & (1u32 << k) == 0, "SORT: no element is yielded twice (from either end)");
                seen |= 1u32 << k;
                yielded += 1;
                // an extreme of what remained: the PriorityQueue iterator and next_back
                // yield a maximum, the DoublePriorityQueue's next a minimum
                let want_max = !T::DOUBLE || back;
                if want_max {
                    assert!(last_max.map_or(true, |m| p.0 <= m), "SORT: non-increasing from the maximum side");
                    last_max = Some(p.0);
                } else {
                    assert!(last_min.map_or(true, |m| p.0 >= m), "SORT: non-decreasing from the minimum side");
                    last_min = Some(p.0);
                }
                if skipped == 0 {
                    let mut s = 0;
                    while s < N {
                        if seen & (1u32 << gh.key[s]) == 0 {
                            if want_max {
                                assert!(p.0 >= gh.prio[s], "SORT: yields a maximum of what remains");
                            } else {
                                assert!(p.0 <= gh.prio[s], "SORT: yields a minimum of what remains");
                            }
                        }
                        s += 1;
                    }
                }
            }
        }
        step += 1;
    }
    assert!(
        yielded + skipped == N && (skipped > 0 || seen == want0.mask),
        "SORT: every element is yielded exactly once"
    );
    cover!(!T::DOUBLE || N < 2 || (used_back && used_front), "both ends used");
    cover!(true, "reach: end of harness");
}

/// One skipping call (`nth(J)` / `nth_back(J)`, J concrete) on a fresh sorted iterator, then
/// the rest through `next`: the call yields iff more than J elements are stored and consumes
/// J + 1 of them (everything when it runs off the end); what follows is the remainder, in
/// order, then `None`. (Adaptors such as `skip` and `step_by` are built on these methods.)
pub fn sorted_skip<T: Q, const N: usize, const J: usize>(back: bool) {
    let (q, _gh, want0) = pre_state::<T, N>(Pre::Inv, Tables::Any);
    let mut it = q.into_sorted_iter_q();
    let r = if back { it.nth_back_q(J) } else { it.nth(J) };
    assert!(r.is_some() == (J < N), "SORT: nth(j) yields iff more than j elements remain");
    let left = if J < N { N - J - 1 } else { 0 };
    if let Some(l) = it.declared_len() {
        assert!(l == left, "SORT: len() after a skipping call is the number of elements remaining");
    }
    let mut seen: u32 = 0;
    let mut last: Option<u8> = None;
    if let Some((i, p)) = r {
        let k = i.key & 31;
        assert!(want0.get(k) == Some((i.pay, p.0)), "SORT: yields stored elements");
        seen |= 1u32 << k;
        if !back {
            last = Some(p.0);
        }
    }
    let mut c = 0;
    let mut step = 0;
    while step < N + 1 {
        match it.next() {
            None => {}
            Some((i, p)) => {
                assert!(c < left, "SORT: nothing is yielded after exhaustion");
                let k = i.key & 31;
                assert!(want0.get(k) == Some((i.pay, p.0)), "SORT: yields stored elements");
                assert!(seen & (1u32 << k) == 0, "SORT: no element is yielded twice");
                seen |= 1u32 << k;
                if T::DOUBLE {
                    assert!(last.map_or(true, |m| p.0 >= m), "SORT: non-decreasing from the minimum side");
                } else {
                    assert!(last.map_or(true, |m| p.0 <= m), "SORT: non-increasing from the maximum side");
                }
                last = Some(p.0);
                c += 1;
            }
        }
        step += 1;
    }
    assert!(c == left, "SORT: a skipping call consumes j + 1 elements (all of them when it runs off the end)");
    cover!(true, "reach: end of harness");
}

/// The first `K` steps of a sorted consumption under a symbolic choice of ends: each
/// yields an extreme of what remains. (Complete consumption is `sorted_iter`; this is the
/// affordable form at the sizes where the trickle-down reaches the grandchildren of both
/// children of the root. A defect that corrupts the order in one step shows at the next.)
pub fn sorted_steps<T: Q, const N: usize, const K: usize>(tables: Tables) {
    let (q, gh, want0) = pre_state::<T, N>(Pre::Inv, tables);
    let mut it = q.into_sorted_iter_q();
    let mut seen: u32 = 0;
    let mut yielded = 0usize;
    let mut step = 0;
    let mut ends_differ = false;
    let mut first_back = false;
    while step < K {
        if let Some(l) = it.declared_len() {
            assert!(l == N - yielded, "SORT: len() is the number of elements remaining");
        }
        let back = if T::DOUBLE { sym::bool() } else { false };
        if step == 0 {
            first_back = back;
        } else {
            ends_differ |= back != first_back;
        }
        match if back { it.back() } else { it.next() } {
            None => assert!(yielded == N, "SORT: None only after every element was yielded"),
            Some((i, p)) => {
                let k = i.key & 31;
                assert!(want0.get(k) == Some((i.pay, p.0)), "SORT: yields stored elements");
                assert!(seen & (1u32 << k) == 0, "SORT: no element is yielded twice (from either end)");
                seen |= 1u32 << k;
                yielded += 1;
                let want_max = !T::DOUBLE || back;
                let mut s = 0;
                while s < N {
                    if seen & (1u32 << gh.key[s]) == 0 {
                        if want_max {
                            assert!(p.0 >= gh.prio[s], "SORT: yields a maximum of what remains");
                        } else {
                            assert!(p.0 <= gh.prio[s], "SORT: yields a minimum of what remains");
                        }
                    }
                    s += 1;
                }
            }
        }
        step += 1;
    }
    cover!(!T::DOUBLE || K < 2 || ends_differ, "both ends used");
    cover!(true, "reach: end of harness");
}

/// into_sorted_vec / into_descending_sorted_vec (asc = false), into_ascending_sorted_vec
pub fn sorted_vec<T: Q, const N: usize>(asc: bool, tables: Tables) {
    let (q, _gh, want0) = pre_state::<T, N>(Pre::Inv, tables);
    let v = if asc { q.into_asc_vec() } else { q.into_desc_vec() };
    assert!(v.len() == N, "SORT: sorted vector holds every item");
    let mut seen: u32 = 0;
    let mut last: Option<u8> = None;
    let mut s = 0;
    while s < N {
        let k = v[s].key & 31;
        let e = want0.get(k);
        assert!(e.map(|x| x.0) == Some(v[s].pay), "SORT: sorted vector holds stored items");
        assert!(seen & (1u32 << k) == 0, "SORT: sorted vector holds every item once");
        seen |= 1u32 << k;
        let p = e.unwrap().1;
        if let Some(l) = last {
            if asc {
                assert!(l <= p, "SORT: ascending vector is non-decreasing in priority");
            } else {
                assert!(l >= p, "SORT: descending vector is non-increasing in priority");
            }
        }
        last = Some(p);
        s += 1;
    }
    cover!(true, "reach: end of harness");
}
