//! Equality and clones (C14), capacity management (C17).

use crate::chk::{assert_inv, Tab};
use crate::cover;
use crate::gen::{build, ghost, state, Pre, Tables};
use crate::q::Q;
use crate::step::{assert_tables_unchanged, post, ALL};
use crate::sym;
use crate::types::{Item, Pr, KEYS};

// ------------------------------------------------------------------------------------
// C14
// ------------------------------------------------------------------------------------
/// `a == b` iff both hold the same set of (item, priority) pairs; symmetric; reflexive.
/// The two states are independent: different arrangements, different capacity.
pub fn eq2<T: Q, const N: usize, const M: usize>() {
    let ga = ghost::<N>(T::DOUBLE, Pre::Inv, Tables::Any);
    let gb = ghost::<M>(T::DOUBLE, Pre::Inv, Tables::Any);
    let a: T = build::<T, N>(&ga, 2);
    let b: T = build::<T, M>(&gb, 5);
    let wa = Tab::of_ghost(&ga);
    let wb = Tab::of_ghost(&gb);
    // oracle: same key set and same priority per key (the item value beyond Eq does
    // not take part: items compare by Eq)
    let mut same = N == M && wa.mask == wb.mask;
    let mut s = 0;
    while s < N {
        let k = ga.key[s];
        same &= wb.get(k).map(|x| x.1) == Some(ga.prio[s]);
        s += 1;
    }
    assert!(a.eq_q(&b) == same, "EQ: queues are equal iff they hold the same (item, priority) pairs");
    assert!(b.eq_q(&a) == same, "EQ: equality is symmetric");
    assert!(a.eq_q(&a) && b.eq_q(&b), "EQ: equality is reflexive");
    cover!(same, "equal contents in different arrangements");
    cover!(!same && N == M && wa.mask == wb.mask, "same items, one priority differs");
    cover!(!same && N == M && wa.mask != wb.mask, "same size, different items");
    cover!(true, "reach: end of harness");
}

/// a clone is equal to its source, has the same tables, and neither side sees what
/// is done to the other
pub fn clone_indep<T: Q, const N: usize>() {
    let (mut a, gh) = state::<T, N>(Pre::Inv, Tables::Any);
    let want = Tab::of_ghost(&gh);
    let mut c = a.clone();
    assert!(c.eq_q(&a) && a.eq_q(&c), "CLONE: a clone is equal to its source");
    assert_tables_unchanged(&c, &gh);
    assert_tables_unchanged(&a, &gh);
    // mutate the clone
    let k = sym::below(KEYS);
    let p = sym::u8();
    let r1 = c.push(Item::new(k, 1), Pr(p));
    assert_tables_unchanged(&a, &gh);
    assert!(
        c.eq_q(&a) == (want.get(k).map(|x| x.1) == Some(p)),
        "CLONE: after a push on the clone the two are equal iff nothing changed"
    );
    // the same operation on the source gives the same answer and equal queues again
    let r2 = a.push(Item::new(k, 1), Pr(p));
    assert!(r1.map(|x| x.0) == r2.map(|x| x.0), "CLONE: clone and source answer alike");
    assert!(a.eq_q(&c), "CLONE: the same operation on both keeps them equal");
    assert_inv(&a);
    assert_inv(&c);
    // drop one, the other is still intact
    drop(c);
    let mut w2 = want;
    match want.get(k) {
        Some((opay, _)) => w2.set(k, opay, p),
        None => w2.set(k, 1, p),
    }
    post(&mut a, &w2, ALL);
}

/// `b.clone_from(&a)`: afterwards `b` is what `a.clone()` would have been -- the same order of
/// iteration and the same heap arrangement (so that ties are broken alike), whatever `b` held
/// before; in particular when `b` held the same pairs in a different arrangement.
pub fn clone_from<T: Q, const N: usize, const M: usize>() {
    let (a, gh) = state::<T, N>(Pre::Inv, Tables::Any);
    let gb = ghost::<M>(T::DOUBLE, Pre::Inv, Tables::Any);
    let mut b: T = build::<T, M>(&gb, 1);
    let same_pairs = N == M && {
        let (ta, tb) = (Tab::of_ghost(&gh), Tab::of_ghost(&gb));
        let mut ok = ta.mask == tb.mask;
        let mut s = 0;
        while s < N {
            ok &= tb.get(gh.key[s]) == Some((gh.pay[s], gh.prio[s]));
            s += 1;
        }
        ok
    };
    b.clone_from(&a);
    assert!(b.eq_q(&a) && a.eq_q(&b), "CLONE: after clone_from the two are equal");
    assert_tables_unchanged(&b, &gh);
    assert_tables_unchanged(&a, &gh);
    assert_inv(&b);
    cover!(N < 2 || N != M || same_pairs, "destination held the same pairs before");
    cover!(true, "reach: end of harness");
}

// ------------------------------------------------------------------------------------
// C17
// ------------------------------------------------------------------------------------
pub const R_RESERVE: u8 = 0;
pub const R_RESERVE_EXACT: u8 = 1;
pub const R_TRY: u8 = 2;
pub const R_TRY_EXACT: u8 = 3;
pub const R_SHRINK: u8 = 4;

/// `amount`: concrete per instance (a symbolic request makes the allocation size
/// symbolic); `huge`: a request whose size in bytes cannot be represented
pub fn capacity<T: Q, const N: usize>(which: u8, amount: usize, huge: bool) {
    capacity_spare::<T, N>(which, amount, huge, 2)
}

/// `spare`: unused capacity of the pre-state (the map's and the tables')
pub fn capacity_spare<T: Q, const N: usize>(which: u8, amount: usize, huge: bool, spare: usize) {
    let (mut q, gh) = crate::gen::state_spare::<T, N>(Pre::Inv, Tables::Any, spare);
    let want = Tab::of_ghost(&gh);
    match which {
        R_RESERVE => {
            q.reserve(amount);
            assert!(q.capacity() >= N + amount, "CAP: capacity() >= len() + additional after reserve");
        }
        R_RESERVE_EXACT => {
            q.reserve_exact(amount);
            assert!(q.capacity() >= N + amount, "CAP: capacity() >= len() + additional after reserve_exact");
        }
        R_TRY => {
            let ok = q.try_reserve(amount);
            if huge {
                assert!(!ok, "CAP: an unsatisfiable try_reserve returns an error");
            } else {
                assert!(ok, "CAP: a small try_reserve succeeds");
                assert!(q.capacity() >= N + amount, "CAP: capacity() >= len() + additional after try_reserve");
            }
        }
        R_TRY_EXACT => {
            let ok = q.try_reserve_exact(amount);
            if huge {
                assert!(!ok, "CAP: an unsatisfiable try_reserve_exact returns an error");
            } else {
                assert!(ok, "CAP: a small try_reserve_exact succeeds");
                assert!(q.capacity() >= N + amount, "CAP: capacity() >= len() + additional after try_reserve_exact");
            }
        }
        _ => {
            q.shrink_to_fit();
            assert!(q.capacity() >= N, "CAP: capacity() >= len() after shrink_to_fit");
        }
    }
    // semantically invisible
    assert_tables_unchanged(&q, &gh);
    post(&mut q, &want, ALL);
    // and the queue is as usable as before: one arbitrary push behaves as on the twin
    // that never reserved (the reference table)
    let k = sym::below(KEYS);
    let p = sym::u8();
    let r = q.push(Item::new(k, 3), Pr(p));
    assert!(r.map(|x| x.0) == want.get(k).map(|x| x.1), "CAP: a later push returns what it would have returned");
    let mut w2 = want;
    match want.get(k) {
        Some((opay, _)) => w2.set(k, opay, p),
        None => w2.set(k, 3, p),
    }
    post(&mut q, &w2, ALL);
}
