//! C10, crash-point half (DESIGN.md §3.4 CRASH): Kani cannot unwind, so the crash point
//! is turned into data. At its c-th invocation (c symbolic) the observed user callback
//! looks at the raw tables of the queue *at that instant* and records whether they are
//! mutually consistent (CRASHSAFE). If user code panicked there and the panic were
//! caught, that is the state every continuation would start from; the continuations
//! themselves are the STEP instances with pre = CrashSafe.

use crate::cover;
use crate::gen::{state, Pre, Tables};
use crate::hook;
use crate::q::Q;
use crate::sym;
use crate::types::{Item, Pr};

/// CRASHSAFE as a predicate (no assertion): all four lengths agree and the tables are
/// mutually inverse. Reads only through the hook accessors.
pub fn crashsafe<T: Q>(q: &T) -> bool {
    let l = q.s_heap_len();
    let mut ok = q.s_qp_len() == l && q.s_map_len() == l && q.s_size() == l;
    let mut pos = 0;
    while pos < l {
        match q.s_heap(pos) {
            Some(slot) => ok &= slot < l && q.s_qp(slot) == Some(pos),
            None => ok = false,
        }
        pos += 1;
    }
    ok
}

/// The two tables and the length counter agree with each other, whatever the map holds.
/// This is what the unchecked accesses rely on while the predicate of `retain*` runs: the
/// map is in the middle of its own `retain` then (after a caught panic it holds *fewer*
/// entries than the tables; every map access of the crate is a checked one).
pub fn tabsafe<T: Q>(q: &T) -> bool {
    let l = q.s_heap_len();
    let mut ok = q.s_qp_len() == l && q.s_size() == l;
    let mut pos = 0;
    while pos < l {
        match q.s_heap(pos) {
            Some(slot) => ok &= slot < l && q.s_qp(slot) == Some(pos),
            None => ok = false,
        }
        pos += 1;
    }
    ok
}

fn probe<T: Q>(p: *const (), _kind: u8) -> bool {
    crashsafe::<T>(unsafe { &*(p as *const T) })
}

/// probe used by the `retain*` harness for the comparisons of the final rebuild; the
/// predicate probes for itself (see `crash_retain`)
fn probe_retain<T: Q>(p: *const (), kind: u8) -> bool {
    if kind == hook::CB_CLOSURE {
        true
    } else {
        crashsafe::<T>(unsafe { &*(p as *const T) })
    }
}

fn arm<T: Q>(q: &T, mask: u8) {
    let at = sym::u8();
    sym::assume(at >= 1);
    unsafe {
        hook::CALLS = 0;
        hook::CRASH_AT = at as u32;
        hook::PROBED = false;
        hook::PROBE_OK = true;
        hook::PROBE_Q = q as *const T as *const ();
        hook::PROBE_Q2 = core::ptr::null();
        hook::PROBE_FN = Some(probe::<T>);
        hook::MASK = mask;
        hook::MODE = hook::MODE_CRASH;
    }
}

pub const ALL_CB: u8 = hook::CB_CMP | hook::CB_EQ | hook::CB_HASH | hook::CB_CLOSURE | hook::CB_ITER;

pub const OP_PUSH: u8 = 0;
pub const OP_CHANGE: u8 = 1;
pub const OP_CHANGE_BY: u8 = 2;
pub const OP_REMOVE: u8 = 3;
pub const OP_POP_HI: u8 = 4;
pub const OP_POP_LO: u8 = 5;
pub const OP_POP_HI_IF: u8 = 6;
pub const OP_POP_LO_IF: u8 = 7;
pub const OP_PUSH_INC: u8 = 8;
pub const OP_PUSH_DEC: u8 = 9;
pub const OP_ITER_MUT_DROP: u8 = 10;

/// Native confirmation of a crash-point counterexample (replay with REAL unwinding):
/// `VERIF_CRASH_CONT=<k>` makes the observed callback panic at the recorded index, the
/// panic is caught, and continuation number k is run on the queue. A continuation that
/// trips std's unsafe-precondition checks (dev profile) aborts the process: that is the
/// concrete unsafe access the property forbids.
#[cfg(not(kani))]
fn native_cont() -> Option<u32> {
    std::env::var("VERIF_CRASH_CONT").ok().and_then(|s| s.parse().ok())
}

#[cfg(not(kani))]
pub const CONTINUATIONS: u32 = 4 + 3 * 16;

#[cfg(not(kani))]
fn continuation<T: Q>(q: &mut T, k: u32) {
    match k {
        0 => {
            q.pop_hi();
        }
        1 => {
            if T::DOUBLE {
                q.pop_lo();
            } else {
                q.pop_hi();
                q.pop_hi();
            }
        }
        2 => {
            q.push(Item::new(15, 0), Pr(255));
        }
        3 => {
            q.push(Item::new(14, 0), Pr(0));
        }
        _ => {
            let key = ((k - 4) % 16) as u8;
            match (k - 4) / 16 {
                0 => {
                    q.remove(&key);
                }
                1 => {
                    q.change_priority(&key, Pr(255));
                }
                _ => {
                    q.change_priority(&key, Pr(0));
                }
            }
        }
    }
    // then use the queue up: touch every key both ways, grow it, empty it
    let mut key = 0u8;
    while key < 16 {
        q.change_priority(&key, Pr(255));
        q.change_priority(&key, Pr(0));
        key += 1;
    }
    q.push(Item::new(13, 0), Pr(200));
    q.push(Item::new(12, 0), Pr(100));
    let mut guard = 0;
    while guard < 40 {
        if q.pop_hi().is_none() {
            break;
        }
        guard += 1;
    }
    q.push(Item::new(1, 1), Pr(1));
    q.push(Item::new(2, 2), Pr(2));
    q.pop_hi();
}

pub fn crash<T: Q, const N: usize>(op: u8, tables: Tables) {
    // a crash can itself follow a crash: start from any CRASHSAFE state
    let (mut q, _gh) = state::<T, N>(Pre::CrashSafe, tables);
    let k = tables.pick_key();
    let p = sym::u8();
    let verdict = sym::bool();
    arm(&q, ALL_CB);
    #[cfg(not(kani))]
    if let Some(cont) = native_cont() {
        unsafe {
            hook::MODE = hook::MODE_PANIC;
        }
        let r = std::panic::catch_unwind(std::panic::AssertUnwindSafe(|| run_op(&mut q, op, k, p, verdict)));
        hook::stop();
        println!("crash replay: operation {} (a panic was {}caught); continuation {}", op, if r.is_err() { "" } else { "NOT " }, cont);
        continuation(&mut q, cont);
        println!("crash replay: continuation {} returned normally", cont);
        // dropping a corrupted queue is part of "every later use"
        drop(q);
        return;
    }
    run_op(&mut q, op, k, p, verdict);
    let (probed, ok) = unsafe { (hook::PROBED, hook::PROBE_OK) };
    hook::stop();
    assert!(
        !probed || ok,
        "CRASH: tables are mutually consistent at every user callback (a caught panic there leaves a safe queue)"
    );
    assert!(crashsafe(&q), "CRASH: tables are mutually consistent at normal return");
    cover!(probed, "a callback was reached at the chosen index");
    cover!(true, "reach: end of harness");
}

fn run_op<T: Q>(q: &mut T, op: u8, k: u8, p: u8, verdict: bool) {
    match op {
        OP_PUSH => {
            q.push(Item::new(k, 0), Pr(p));
        }
        OP_PUSH_INC => {
            q.push_increase(Item::new(k, 0), Pr(p));
        }
        OP_PUSH_DEC => {
            q.push_decrease(Item::new(k, 0), Pr(p));
        }
        OP_CHANGE => {
            q.change_priority(&k, Pr(p));
        }
        OP_CHANGE_BY => {
            q.change_priority_by(&k, |x| {
                hook::user_callback(hook::CB_CLOSURE);
                x.0 = p
            });
        }
        OP_REMOVE => {
            q.remove(&k);
        }
        OP_POP_HI => {
            q.pop_hi();
        }
        OP_POP_LO => {
            q.pop_lo();
        }
        OP_POP_HI_IF => {
            q.pop_hi_if(|_, x| {
                x.0 = p;
                hook::user_callback(hook::CB_CLOSURE);
                verdict
            });
        }
        OP_POP_LO_IF => {
            q.pop_lo_if(|_, x| {
                x.0 = p;
                hook::user_callback(hook::CB_CLOSURE);
                verdict
            });
        }
        _ => {
            let mut it = q.iter_mut_q();
            if let Some((_, x)) = it.next() {
                x.0 = p;
            }
            drop(it);
        }
    }
}

// ------------------------------------------------------------------------------------
// crash points inside the bulk operations: the iterator feeding `extend`, the predicate of
// `retain*`, `Eq`/`Hash` of the items moved by `append`, and the comparisons of the
// rebuild that ends each of them
// ------------------------------------------------------------------------------------
fn finish<T: Q>(q: &T, what_ok: bool) {
    let (probed, ok) = unsafe { (hook::PROBED, hook::PROBE_OK) };
    hook::stop();
    assert!(
        !probed || ok,
        "CRASH: tables are mutually consistent at every user callback (a caught panic there leaves a safe queue)"
    );
    assert!(what_ok && crashsafe(q), "CRASH: tables are mutually consistent at normal return");
    cover!(probed, "a callback was reached at the chosen index");
    cover!(true, "reach: end of harness");
}

#[cfg(not(kani))]
fn native_bulk<T: Q, F: FnOnce(&mut T)>(q: &mut T, what: &str, f: F) -> bool {
    if let Some(cont) = native_cont() {
        unsafe {
            hook::MODE = hook::MODE_PANIC;
        }
        let r = std::panic::catch_unwind(std::panic::AssertUnwindSafe(|| f(q)));
        hook::stop();
        println!("crash replay: {} (a panic was {}caught); continuation {}", what, if r.is_err() { "" } else { "NOT " }, cont);
        continuation(q, cont);
        println!("crash replay: continuation {} returned normally", cont);
        return true;
    }
    f(q);
    false
}

#[cfg(kani)]
fn native_bulk<T: Q, F: FnOnce(&mut T)>(q: &mut T, _what: &str, f: F) -> bool {
    f(q);
    false
}

/// `extend` with a feed of `M` pairs (keys `SEQ`, concrete; priorities symbolic); the
/// size_hint class selects the strategy (push one by one / insert all and rebuild)
pub fn crash_extend<T: Q, const N: usize, const M: usize, const SEQ: u32>(tables: Tables, class: u8) {
    let (mut q, _gh) = crate::gen::state_keys::<T, N>(Pre::CrashSafe, tables, crate::gen::iota::<N>());
    let f = crate::bulk::feed::<M>(SEQ, class);
    arm(&q, ALL_CB);
    if native_bulk(&mut q, "extend", |q| q.extend_q(f)) {
        return;
    }
    finish(&q, true);
}

/// `retain` / `retain_mut` with the concrete verdict pattern `PAT`. Inside the predicate the
/// map is in the middle of its own `retain` (the model's `Vec::retain_mut` reports length 0
/// there, the real one leaves fewer entries behind after a caught panic), so the probe at a
/// predicate call is TABSAFE: the tables and the counter agree with each other. The predicate
/// probes through a typed pointer it captures. (With the type-erased pointer in the static,
/// CBMC reports a spurious double free when *every* element is removed -- it does not
/// reproduce natively and not with the typed pointer; when nothing survives the final rebuild
/// makes no comparison, so the static is simply not armed for those patterns.)
pub fn crash_retain<T: Q, const N: usize, const PAT: u32>(tables: Tables, mutable: bool) {
    let (mut q, _gh) = state::<T, N>(Pre::CrashSafe, tables);
    let w = sym::u8();
    arm(&q, ALL_CB);
    let survivors = PAT & ((1u32 << N) - 1) != 0;
    unsafe {
        if survivors {
            hook::PROBE_FN = Some(probe_retain::<T>);
        } else {
            hook::PROBE_FN = None;
            hook::PROBE_Q = core::ptr::null();
        }
    }
    let qp = &q as *const T;
    let mut idx = 0u32;
    let mut pred = |p: &mut Pr| {
        hook::user_callback(hook::CB_CLOSURE);
        unsafe {
            if hook::MODE == hook::MODE_CRASH && hook::CALLS == hook::CRASH_AT {
                hook::PROBE_OK &= tabsafe::<T>(&*qp);
            }
        }
        if mutable {
            p.0 = w;
        }
        let keep = PAT & (1u32 << (idx & 31)) != 0;
        idx += 1;
        keep
    };
    let done = native_bulk(&mut q, "retain", |q| {
        if mutable {
            q.retain_mut(|_, p| pred(p))
        } else {
            q.retain(|_, p| {
                let mut c = *p;
                pred(&mut c)
            })
        }
    });
    if done {
        return;
    }
    finish(&q, true);
}

/// `append` of a queue of `M` elements with the keys `SEQ`
pub fn crash_append<T: Q, const N: usize, const M: usize, const SEQ: u32>(tables: Tables) {
    let (mut q, _gh) = crate::gen::state_keys::<T, N>(Pre::CrashSafe, tables, crate::gen::iota::<N>());
    let mut okeys = [0u8; M];
    let mut j = 0;
    while j < M {
        okeys[j] = crate::bulk::key_of(SEQ, j);
        j += 1;
    }
    let (mut other, _ogh) = crate::gen::state_keys::<T, M>(Pre::CrashSafe, tables, okeys);
    arm(&q, ALL_CB);
    unsafe {
        hook::PROBE_Q2 = &other as *const T as *const ();
    }
    let optr = &mut other as *mut T;
    let done = native_bulk(&mut q, "append", |q| q.append(unsafe { &mut *optr }));
    if done {
        // the other queue is part of "every later use"
        other.pop_hi();
        other.push(Item::new(11, 0), Pr(7));
        other.pop_hi();
        drop(other);
        return;
    }
    let other_ok = crashsafe(&other);
    finish(&q, other_ok);
}

// ------------------------------------------------------------------------------------
// continuations from the state a caught panic inside the predicate of `retain*` leaves
// behind (family SAFE): tables and counter of N entries, mutually consistent, the map `D`
// entries short. Such a queue may answer wrongly and may panic (`unwrap` of a missing
// entry) -- C10 allows both -- but no unchecked access may leave its object. The harness
// asserts nothing itself; the runner accepts failed *panic* checks of the crate and counts
// every other failed check (dereference, bounds of an unchecked access, arithmetic).
// ------------------------------------------------------------------------------------
pub fn shortmap<T: Q, const N: usize, const D: usize>(op: u8, tables: Tables) {
    let g = crate::gen::ghost::<N>(T::DOUBLE, Pre::CrashSafe, tables);
    let mut q = crate::gen::build_short::<T, N>(&g, N - D);
    let k = tables.pick_key();
    let p = sym::u8();
    let verdict = sym::bool();
    match op {
        20 => {
            let _ = q.peek_hi().map(|(i, _)| i.key);
            if T::DOUBLE {
                let _ = q.peek_lo().map(|(i, _)| i.key);
                let _ = q.peek_lo_mut().map(|(i, _)| i.key);
            }
            let _ = q.peek_hi_mut().map(|(i, _)| i.key);
            let _ = q.get(&k).map(|(i, _)| i.key);
            let _ = q.get_mut(&k).map(|(i, _)| i.key);
            let _ = q.len();
        }
        21 => {
            q.clear();
            q.push(Item::new(k, 0), Pr(p));
        }
        22 => {
            let mut d = q.drain_q();
            let _ = d.next();
            drop(d);
            q.push(Item::new(k, 0), Pr(p));
        }
        23 => {
            // (a symbolic number of survivors would make the table lengths symbolic)
            q.retain_mut(|_, x| {
                x.0 = p;
                true
            });
        }
        _ => run_op(&mut q, op, k, p, verdict),
    }
    cover!(true, "reach: end of harness");
    // dropping the queue is a use as well
    drop(q);
}
