//! Symbolic pre-states: an arbitrary pair of mutually inverse tables over `N` slots,
//! arbitrary pairwise distinct keys, arbitrary payloads and priorities; optionally
//! constrained to the heap order of the queue kind (DESIGN.md §3.3).

use crate::q::{mk_map, Q};
use crate::sym;
use crate::types::{Item, Pr, KEYS};

#[derive(Clone, Copy, PartialEq, Eq)]
pub enum Pre {
    /// STRUCT and the heap order of the kind
    Inv,
    /// STRUCT only: what is left after a leaked `iter_mut` or a caught panic
    CrashSafe,
}

/// Ghost copy of a pre-state, by slot.
#[derive(Clone, Copy)]
pub struct Ghost<const N: usize> {
    pub key: [u8; N],
    pub pay: [u8; N],
    pub prio: [u8; N],
    /// position -> slot
    pub heap: [usize; N],
    /// slot -> position
    pub qp: [usize; N],
}

#[inline(always)]
pub const fn parent(i: usize) -> usize {
    (i - 1) / 2
}

#[inline(always)]
pub const fn level(i: usize) -> u32 {
    usize::BITS - (i + 1).leading_zeros() - 1
}

/// max-heap order over priorities listed by position
pub fn ord_max(hp: &[u8]) -> bool {
    let mut ok = true;
    let mut pos = 1;
    while pos < hp.len() {
        ok &= hp[parent(pos)] >= hp[pos];
        pos += 1;
    }
    ok
}

/// min-max heap order over priorities listed by position: every node on an even
/// level is <= and every node on an odd level is >= its children and grandchildren
pub fn ord_minmax(hp: &[u8]) -> bool {
    let mut ok = true;
    let mut pos = 1;
    while pos < hp.len() {
        let p = parent(pos);
        if level(p) % 2 == 0 {
            ok &= hp[p] <= hp[pos];
        } else {
            ok &= hp[p] >= hp[pos];
        }
        if p > 0 {
            let g = parent(p);
            if level(g) % 2 == 0 {
                ok &= hp[g] <= hp[pos];
            } else {
                ok &= hp[g] >= hp[pos];
            }
        }
        pos += 1;
    }
    ok
}

pub fn ord_of(double: bool, hp: &[u8]) -> bool {
    if double {
        ord_minmax(hp)
    } else {
        ord_max(hp)
    }
}

/// Which slot tables the generator ranges over.
#[derive(Clone, Copy, PartialEq, Eq)]
pub enum Tables {
    /// every pair of mutually inverse permutations
    Any,
    /// heap[i] == qp[i] == i, keys 0..N (large-N instances, DESIGN.md §4)
    Identity,
    /// identity tables, and the key argument of the operation is this concrete key:
    /// the position of the addressed element is concrete, all priorities stay symbolic
    /// (case split of an obligation on the heap position of the addressed element)
    IdentityKey(u8),
}

impl Tables {
    /// the key argument of a keyed operation
    pub fn pick_key(self) -> u8 {
        match self {
            Tables::IdentityKey(k) => k,
            _ => sym::below(KEYS),
        }
    }
}

pub fn ghost<const N: usize>(double: bool, pre: Pre, tables: Tables) -> Ghost<N> {
    ghost_with::<N>(double, pre, tables, None)
}

/// keys 0..N
pub fn iota<const N: usize>() -> [u8; N] {
    let mut k = [0u8; N];
    let mut i = 0;
    while i < N {
        k[i] = i as u8;
        i += 1;
    }
    k
}

/// `keys`: concrete, pairwise distinct keys by slot (the harness needs concrete
/// presence/absence so that table lengths stay concrete); `None`: symbolic keys
pub fn ghost_with<const N: usize>(double: bool, pre: Pre, tables: Tables, keys: Option<[u8; N]>) -> Ghost<N> {
    let mut g = Ghost {
        key: [0u8; N],
        pay: [0u8; N],
        prio: [0u8; N],
        heap: [0usize; N],
        qp: [0usize; N],
    };
    // priorities by heap position
    let mut hp = [0u8; N];
    let mut i = 0;
    while i < N {
        hp[i] = if unsafe { FLAT } { 7 } else { sym::u8() };
        g.pay[i] = sym::u8();
        match tables {
            Tables::Any => {
                match keys {
                    Some(ks) => g.key[i] = ks[i],
                    None => {
                        g.key[i] = sym::below(KEYS);
                        let mut j = 0;
                        while j < i {
                            sym::assume(g.key[j] != g.key[i]);
                            j += 1;
                        }
                    }
                }
                g.heap[i] = sym::below(N as u8) as usize;
                let mut j = 0;
                while j < i {
                    sym::assume(g.heap[j] != g.heap[i]);
                    j += 1;
                }
            }
            Tables::Identity | Tables::IdentityKey(_) => {
                g.key[i] = match keys {
                    Some(ks) => ks[i],
                    None => i as u8,
                };
                g.heap[i] = i;
            }
        }
        i += 1;
    }
    if pre == Pre::Inv {
        sym::assume(ord_of(double, &hp));
    }
    let mut pos = 0;
    while pos < N {
        g.qp[g.heap[pos]] = pos;
        pos += 1;
    }
    let mut s = 0;
    while s < N {
        g.prio[s] = hp[g.qp[s]];
        s += 1;
    }
    g
}

/// Assemble the real queue for a ghost state, with `spare` unused capacity.
pub fn build<T: Q, const N: usize>(g: &Ghost<N>, spare: usize) -> T {
    let mut entries = Vec::with_capacity(N + spare);
    let mut heap = Vec::with_capacity(N + spare);
    let mut qp = Vec::with_capacity(N + spare);
    let mut s = 0;
    while s < N {
        entries.push((Item::new(g.key[s], g.pay[s]), Pr(g.prio[s])));
        heap.push(g.heap[s]);
        qp.push(g.qp[s]);
        s += 1;
    }
    T::from_raw(mk_map::<T::H>(entries, N + spare), heap, qp, N)
}

/// All priorities one concrete value: for obligations that do not depend on the priorities
/// (table bookkeeping around callbacks in the rebuild strategy of `extend`), so that the
/// rebuild at the end costs nothing. Recorded in the instance's meta.
pub static mut FLAT: bool = false;
pub fn set_flat_priorities() {
    unsafe {
        FLAT = true;
    }
}

/// unused capacity of the generated pre-states (two slots unless an instance asks otherwise)
pub static mut SPARE: usize = 2;
pub fn set_spare(s: usize) {
    unsafe {
        SPARE = s;
    }
}

pub fn state<T: Q, const N: usize>(pre: Pre, tables: Tables) -> (T, Ghost<N>) {
    let g = ghost::<N>(T::DOUBLE, pre, tables);
    let q = build::<T, N>(&g, unsafe { SPARE });
    (q, g)
}

/// A queue as a caught panic inside the predicate of `retain*` leaves it: heap, qp and the
/// counter agree with each other (N entries), the map holds only the first `M` entries.
pub fn build_short<T: Q, const N: usize>(g: &Ghost<N>, m: usize) -> T {
    let mut entries = Vec::with_capacity(N + 2);
    let mut heap = Vec::with_capacity(N + 2);
    let mut qp = Vec::with_capacity(N + 2);
    let mut s = 0;
    while s < N {
        if s < m {
            entries.push((Item::new(g.key[s], g.pay[s]), Pr(g.prio[s])));
        }
        heap.push(g.heap[s]);
        qp.push(g.qp[s]);
        s += 1;
    }
    T::from_raw(mk_map::<T::H>(entries, N + 2), heap, qp, N)
}

/// pre-state with a chosen amount of unused capacity (0: the next insertion reallocates)
pub fn state_spare<T: Q, const N: usize>(pre: Pre, tables: Tables, spare: usize) -> (T, Ghost<N>) {
    let g = ghost::<N>(T::DOUBLE, pre, tables);
    let q = build::<T, N>(&g, spare);
    (q, g)
}

/// pre-state over the concrete keys `keys`
pub fn state_keys<T: Q, const N: usize>(pre: Pre, tables: Tables, keys: [u8; N]) -> (T, Ghost<N>) {
    let g = ghost_with::<N>(T::DOUBLE, pre, tables, Some(keys));
    let q = build::<T, N>(&g, unsafe { SPARE });
    (q, g)
}
