//! Family STEP: one public operation from an arbitrary pre-state of concrete size `N`
//! (DESIGN.md §3.4). Each function is one harness body, generic over the queue kind.

use crate::chk::{assert_cont, assert_lookup, assert_ord, assert_struct, Tab};
use crate::cover;
use crate::gen::{state, Ghost, Pre, Tables};
use crate::q::Q;
use crate::sym;
use crate::types::{Item, Pr, KEYS};

/// Which post-conditions a harness instance establishes (large sizes are split into
/// cheaper queries; the conjunction over the groups is the full obligation).
#[derive(Clone, Copy)]
pub struct Grp {
    pub st: bool,
    pub ord: bool,
    pub model: bool,
    /// also compare the stored item value of the element an update targets (C12)
    pub pay: bool,
}
pub const ALL: Grp = Grp { st: true, ord: true, model: true, pay: false };
pub const STRUCT: Grp = Grp { st: true, ord: false, model: false, pay: false };
pub const ORDER: Grp = Grp { st: false, ord: true, model: false, pay: false };
pub const MODEL: Grp = Grp { st: false, ord: false, model: true, pay: false };
/// the C12 variants
pub const ALLP: Grp = Grp { st: true, ord: true, model: true, pay: true };
pub const MODELP: Grp = Grp { st: false, ord: false, model: true, pay: true };

/// `peek*` report stored elements that are extremes of *all* stored priorities
/// (the quantified statement itself, not a consequence drawn from the tree shape).
pub fn assert_peek_extreme<T: Q>(q: &T) {
    let l = q.s_map_len();
    match q.peek_hi() {
        None => assert!(l == 0, "PEEK: None only when empty"),
        Some((i, p)) => {
            assert!(l > 0, "PEEK: Some only when non-empty");
            let mut found = false;
            let mut s = 0;
            while s < l {
                let (si, sp) = q.s_slot(s).unwrap();
                assert!(p.0 >= sp.0, "PEEK: peek/peek_max >= every stored priority");
                if si.key == i.key {
                    found = sp.0 == p.0 && si.pay == i.pay;
                }
                s += 1;
            }
            assert!(found, "PEEK: peek/peek_max reports a stored element");
        }
    }
    if T::DOUBLE {
        match q.peek_lo() {
            None => assert!(l == 0, "PEEK: None only when empty"),
            Some((i, p)) => {
                assert!(l > 0, "PEEK: Some only when non-empty");
                let mut found = false;
                let mut s = 0;
                while s < l {
                    let (si, sp) = q.s_slot(s).unwrap();
                    assert!(p.0 <= sp.0, "PEEK: peek_min <= every stored priority");
                    if si.key == i.key {
                        found = sp.0 == p.0 && si.pay == i.pay;
                    }
                    s += 1;
                }
                assert!(found, "PEEK: peek_min reports a stored element");
            }
        }
    }
}

/// the post-condition shared by every STEP instance
pub fn post<T: Q>(q: &mut T, want: &Tab, g: Grp) {
    if g.st {
        assert_struct(q);
    }
    if g.ord {
        assert_ord(q);
        assert_peek_extreme(q);
    }
    if g.model {
        assert_cont(q, want);
        let probe = sym::below(KEYS);
        assert_lookup(q, want, probe);
    }
    cover!(true, "reach: end of harness");
}

fn pre_state<T: Q, const N: usize>(pre: Pre, tables: Tables) -> (T, Ghost<N>, Tab) {
    let (q, g) = state::<T, N>(pre, tables);
    let want = Tab::of_ghost(&g);
    (q, g, want)
}

// ------------------------------------------------------------------------------------
// push
// ------------------------------------------------------------------------------------
pub fn push<T: Q, const N: usize>(pre: Pre, tables: Tables, g: Grp) {
    let (mut q, _gh, mut want) = pre_state::<T, N>(pre, tables);
    let k = tables.pick_key();
    let pay = sym::u8();
    let p = sym::u8();
    let old = want.get(k);
    let r = q.push(Item::new(k, pay), Pr(p));
    if g.model {
        assert!(r.map(|x| x.0) == old.map(|x| x.1), "RET: push returns the previous priority or None");
    }
    match old {
        Some((opay, _)) => want.set(k, opay, p),
        None => want.set(k, pay, p),
    }
    if !g.pay && old.is_some() {
        want.any_payload(k);
    }
    post(&mut q, &want, g);
    cover!(old.is_some(), "push of a present item");
    cover!(old.is_none(), "push of a new item");
}

// ------------------------------------------------------------------------------------
// change_priority / change_priority_by
// ------------------------------------------------------------------------------------
pub fn change_priority<T: Q, const N: usize>(pre: Pre, tables: Tables, g: Grp) {
    let (mut q, _gh, mut want) = pre_state::<T, N>(pre, tables);
    let k = tables.pick_key();
    let p = sym::u8();
    let old = want.get(k);
    let r = q.change_priority(&k, Pr(p));
    if g.model {
        assert!(
            r.map(|x| x.0) == old.map(|x| x.1),
            "RET: change_priority returns the old priority or None"
        );
    }
    if let Some((opay, _)) = old {
        want.set(k, opay, p);
        if !g.pay {
            want.any_payload(k);
        }
    }
    post(&mut q, &want, g);
    cover!(old.map_or(false, |o| o.1 < p), "priority raised");
    cover!(old.map_or(false, |o| o.1 > p), "priority lowered");
    cover!(old.is_none(), "absent item");
}

pub fn change_priority_by<T: Q, const N: usize>(pre: Pre, tables: Tables, g: Grp) {
    let (mut q, _gh, mut want) = pre_state::<T, N>(pre, tables);
    let k = tables.pick_key();
    let p = sym::u8();
    let old = want.get(k);
    let mut calls = 0u8;
    let mut seen = 0u8;
    let r = q.change_priority_by(&k, |x| {
        calls += 1;
        seen = x.0;
        x.0 = p;
    });
    if g.model {
        assert!(r == old.is_some(), "RET: change_priority_by reports presence");
        assert!(calls == if old.is_some() { 1 } else { 0 }, "CB: setter called once iff present");
        if let Some((_, oprio)) = old {
            assert!(seen == oprio, "CB: setter sees the stored priority");
        }
    }
    if let Some((opay, _)) = old {
        want.set(k, opay, p);
        if !g.pay {
            want.any_payload(k);
        }
    }
    post(&mut q, &want, g);
    cover!(old.map_or(false, |o| o.1 < p), "priority raised");
    cover!(old.map_or(false, |o| o.1 > p), "priority lowered");
}

// ------------------------------------------------------------------------------------
// remove
// ------------------------------------------------------------------------------------
pub fn remove<T: Q, const N: usize>(pre: Pre, tables: Tables, g: Grp) {
    let (mut q, _gh, mut want) = pre_state::<T, N>(pre, tables);
    let k = tables.pick_key();
    let old = want.get(k);
    let r = q.remove(&k);
    if g.model {
        assert!(
            r.map(|(i, p)| (i.key, i.pay, p.0)) == old.map(|(pay, prio)| (k, pay, prio)),
            "RET: remove returns the stored pair or None"
        );
    }
    want.del(k);
    post(&mut q, &want, g);
    cover!(old.is_some(), "present item removed");
    cover!(old.is_none(), "absent item");
}

// ------------------------------------------------------------------------------------
// pop (high end: PriorityQueue::pop, DoublePriorityQueue::pop_max)
// ------------------------------------------------------------------------------------
pub fn pop_hi<T: Q, const N: usize>(pre: Pre, tables: Tables, g: Grp) {
    let (mut q, gh, mut want) = pre_state::<T, N>(pre, tables);
    let peeked = q.peek_hi().map(|(i, p)| (i.key, i.pay, p.0));
    let r = q.pop_hi().map(|(i, p)| (i.key, i.pay, p.0));
    if g.ord || g.model {
        assert!(r == peeked, "RET: pop/pop_max removes exactly the element peek reported");
        assert!(r.is_some() == (N > 0), "RET: pop is None iff empty");
    }
    if let Some((k, pay, prio)) = r {
        if g.ord && pre == Pre::Inv {
            let mut s = 0;
            while s < N {
                assert!(prio >= gh.prio[s], "RET: popped priority >= every stored priority");
                s += 1;
            }
        }
        if g.model {
            assert!(want.get(k) == Some((pay, prio)), "RET: pop returns a stored pair");
        }
        want.del(k);
    }
    post(&mut q, &want, g);
}

// ------------------------------------------------------------------------------------
// pop_min
// ------------------------------------------------------------------------------------
pub fn pop_lo<T: Q, const N: usize>(pre: Pre, tables: Tables, g: Grp) {
    let (mut q, gh, mut want) = pre_state::<T, N>(pre, tables);
    let peeked = q.peek_lo().map(|(i, p)| (i.key, i.pay, p.0));
    let r = q.pop_lo().map(|(i, p)| (i.key, i.pay, p.0));
    if g.ord || g.model {
        assert!(r == peeked, "RET: pop_min removes exactly the element peek_min reported");
        assert!(r.is_some() == (N > 0), "RET: pop_min is None iff empty");
    }
    if let Some((k, pay, prio)) = r {
        if g.ord && pre == Pre::Inv {
            let mut s = 0;
            while s < N {
                assert!(prio <= gh.prio[s], "RET: popped priority <= every stored priority");
                s += 1;
            }
        }
        if g.model {
            assert!(want.get(k) == Some((pay, prio)), "RET: pop_min returns a stored pair");
        }
        want.del(k);
    }
    post(&mut q, &want, g);
}

/// the raw tables are exactly those of the ghost pre-state (nothing moved)
pub fn assert_tables_unchanged<T: Q, const N: usize>(q: &T, gh: &Ghost<N>) {
    assert!(q.s_heap_len() == N, "SAME: heap length unchanged");
    assert!(q.s_qp_len() == N, "SAME: qp length unchanged");
    assert!(q.s_map_len() == N, "SAME: map length unchanged");
    let mut s = 0;
    while s < N {
        assert!(q.s_heap(s) == Some(gh.heap[s]), "SAME: heap table unchanged");
        assert!(q.s_qp(s) == Some(gh.qp[s]), "SAME: qp table unchanged");
        let (i, p) = q.s_slot(s).unwrap();
        assert!(
            i.key == gh.key[s] && i.pay == gh.pay[s] && p.0 == gh.prio[s],
            "SAME: slot contents unchanged"
        );
        s += 1;
    }
}

// ------------------------------------------------------------------------------------
// push_increase / push_decrease (C11)
// ------------------------------------------------------------------------------------
pub fn push_dir<T: Q, const N: usize>(pre: Pre, tables: Tables, g: Grp, increase: bool) {
    let (mut q, gh, mut want) = pre_state::<T, N>(pre, tables);
    let k = tables.pick_key();
    let pay = sym::u8();
    let p = sym::u8();
    let old = want.get(k);
    let r = if increase {
        q.push_increase(Item::new(k, pay), Pr(p))
    } else {
        q.push_decrease(Item::new(k, pay), Pr(p))
    };
    let r = r.map(|x| x.0);
    match old {
        None => {
            if g.model {
                assert!(r.is_none(), "RET: push_increase/decrease of an absent item returns None");
            }
            want.set(k, pay, p);
        }
        Some((opay, oprio)) => {
            let better = if increase { p > oprio } else { p < oprio };
            if better {
                if g.model {
                    assert!(r == Some(oprio), "RET: a strictly better offer returns the old priority");
                }
                want.set(k, opay, p);
                if !g.pay {
                    want.any_payload(k);
                }
            } else {
                if g.model {
                    assert!(r == Some(p), "RET: an offer that is not better is handed back");
                }
                if g.model || g.st {
                    assert_tables_unchanged(&q, &gh);
                }
            }
            cover!(better, "offer strictly better");
            cover!(p == oprio, "offer equal");
            cover!(!better && p != oprio, "offer worse");
        }
    }
    post(&mut q, &want, g);
    cover!(old.is_none(), "absent item inserted");
}

pub fn push_increase<T: Q, const N: usize>(pre: Pre, tables: Tables, g: Grp) {
    push_dir::<T, N>(pre, tables, g, true)
}
pub fn push_decrease<T: Q, const N: usize>(pre: Pre, tables: Tables, g: Grp) {
    push_dir::<T, N>(pre, tables, g, false)
}

// ------------------------------------------------------------------------------------
// change_priority through the owned form of the key, carrying a different payload (C12)
// ------------------------------------------------------------------------------------
pub fn change_priority_item<T: Q, const N: usize>(pre: Pre, tables: Tables, g: Grp) {
    let (mut q, _gh, mut want) = pre_state::<T, N>(pre, tables);
    let k = tables.pick_key();
    let pay = sym::u8();
    let p = sym::u8();
    let old = want.get(k);
    // the borrowed and the owned form of the key address the same element
    let a = q.get(&k).map(|(i, p)| (i.key, i.pay, p.0));
    let b = q.get_item(&Item::new(k, pay)).map(|(i, p)| (i.key, i.pay, p.0));
    assert!(a == b, "KEY: borrowed and owned lookup keys address the same element");
    let r = q.change_priority_item(&Item::new(k, pay), Pr(p));
    if g.model {
        assert!(
            r.map(|x| x.0) == old.map(|x| x.1),
            "RET: change_priority returns the old priority or None"
        );
    }
    if let Some((opay, _)) = old {
        // the stored item value is the one first inserted, not the lookup key's
        want.set(k, opay, p);
        if !g.pay {
            want.any_payload(k);
        }
        cover!(opay != pay, "lookup key carries a different payload");
    }
    post(&mut q, &want, g);
}

// ------------------------------------------------------------------------------------
// pop_if family
// ------------------------------------------------------------------------------------
pub fn pop_if<T: Q, const N: usize>(pre: Pre, tables: Tables, g: Grp, hi: bool) {
    let (mut q, _gh, mut want) = pre_state::<T, N>(pre, tables);
    let peeked = if hi { q.peek_hi() } else { q.peek_lo() }.map(|(i, p)| (i.key, i.pay, p.0));
    let verdict = sym::bool();
    let w = sym::u8();
    let wpay = sym::u8();
    let mut calls = 0u8;
    let mut seen = None;
    let f = |i: &mut Item, p: &mut Pr| {
        calls += 1;
        seen = Some((i.key, i.pay, p.0));
        p.0 = w;
        i.pay = wpay;
        verdict
    };
    let r = if hi { q.pop_hi_if(f) } else { q.pop_lo_if(f) }.map(|(i, p)| (i.key, i.pay, p.0));
    if g.ord || g.model {
        assert!(calls == if N > 0 { 1 } else { 0 }, "CB: predicate called once iff non-empty");
        assert!(seen == peeked, "CB: predicate is shown the element peek reported");
    }
    if let Some((k, _, _)) = peeked {
        if verdict {
            if g.model || g.ord {
                assert!(
                    r.map(|x| (x.0, x.2)) == Some((k, w)) && (!g.pay || r.map(|x| x.1) == Some(wpay)),
                    "RET: pop_if returns the element with what the predicate wrote"
                );
            }
            want.del(k);
        } else {
            if g.model || g.ord {
                assert!(r.is_none(), "RET: pop_if returns None when the predicate declines");
            }
            want.set(k, wpay, w);
            if !g.pay {
                want.any_payload(k);
            }
        }
    } else if g.model || g.ord {
        assert!(r.is_none(), "RET: pop_if on an empty queue is None");
    }
    post(&mut q, &want, g);
    cover!(verdict, "predicate accepts");
    cover!(!verdict, "predicate declines");
}

pub fn pop_hi_if<T: Q, const N: usize>(pre: Pre, tables: Tables, g: Grp) {
    pop_if::<T, N>(pre, tables, g, true)
}
pub fn pop_lo_if<T: Q, const N: usize>(pre: Pre, tables: Tables, g: Grp) {
    pop_if::<T, N>(pre, tables, g, false)
}

// ------------------------------------------------------------------------------------
// peek_mut family: addresses the peeked element; payload written through it persists
// ------------------------------------------------------------------------------------
pub fn peek_mut<T: Q, const N: usize>(pre: Pre, tables: Tables, g: Grp, hi: bool) {
    let (mut q, gh, mut want) = pre_state::<T, N>(pre, tables);
    let peeked = if hi { q.peek_hi() } else { q.peek_lo() }.map(|(i, p)| (i.key, i.pay, p.0));
    let wpay = sym::u8();
    let got = {
        let m = if hi { q.peek_hi_mut() } else { q.peek_lo_mut() };
        match m {
            None => None,
            Some((i, p)) => {
                let v = (i.key, i.pay, p.0);
                i.pay = wpay;
                Some(v)
            }
        }
    };
    assert!(got == peeked, "RET: peek_mut addresses the element peek reported");
    if let Some((k, _, prio)) = peeked {
        want.set(k, wpay, prio);
        if !g.pay {
            want.any_payload(k);
        }
    }
    if g.st || g.model {
        // nothing but the payload changed
        let mut s = 0;
        while s < N {
            assert!(q.s_heap(s) == Some(gh.heap[s]), "SAME: heap table unchanged");
            assert!(q.s_qp(s) == Some(gh.qp[s]), "SAME: qp table unchanged");
            s += 1;
        }
    }
    post(&mut q, &want, g);
}

pub fn peek_hi_mut<T: Q, const N: usize>(pre: Pre, tables: Tables, g: Grp) {
    peek_mut::<T, N>(pre, tables, g, true)
}
pub fn peek_lo_mut<T: Q, const N: usize>(pre: Pre, tables: Tables, g: Grp) {
    peek_mut::<T, N>(pre, tables, g, false)
}

// ------------------------------------------------------------------------------------
// get_mut: payload written through it persists, nothing else moves
// ------------------------------------------------------------------------------------
pub fn get_mut<T: Q, const N: usize>(pre: Pre, tables: Tables, g: Grp) {
    let (mut q, gh, mut want) = pre_state::<T, N>(pre, tables);
    let k = tables.pick_key();
    let wpay = sym::u8();
    let old = want.get(k);
    let got = match q.get_mut(&k) {
        None => None,
        Some((i, p)) => {
            let v = (i.pay, p.0);
            i.pay = wpay;
            Some(v)
        }
    };
    assert!(got == old, "RET: get_mut returns the stored pair or None");
    if let Some((_, prio)) = old {
        want.set(k, wpay, prio);
        if !g.pay {
            want.any_payload(k);
        }
    }
    let mut s = 0;
    while s < N {
        assert!(q.s_heap(s) == Some(gh.heap[s]), "SAME: heap table unchanged");
        assert!(q.s_qp(s) == Some(gh.qp[s]), "SAME: qp table unchanged");
        s += 1;
    }
    post(&mut q, &want, g);
    cover!(old.is_some(), "present item");
}

// ------------------------------------------------------------------------------------
// retain / retain_mut
//
// The verdicts of the predicate are concrete per instance (`PAT`, bit i = verdict of the
// i-th call): a symbolic survivor count makes `Store::retain_mut` allocate tables of
// symbolic length, which CBMC cannot bit-blast (DESIGN.md §3.3). Everything else -- which
// elements sit in which slot, their priorities, what the predicate writes -- is symbolic,
// and the instances enumerate the patterns.
// ------------------------------------------------------------------------------------
pub fn retain<T: Q, const N: usize, const PAT: u32>(pre: Pre, tables: Tables, g: Grp, mutable: bool) {
    let (mut q, gh, want0) = pre_state::<T, N>(pre, tables);
    // what the predicate writes, by call index
    let mut rew = [0u8; N];
    let mut rpay = [0u8; N];
    if mutable {
        let mut s = 0;
        while s < N {
            rew[s] = sym::u8();
            rpay[s] = sym::u8();
            s += 1;
        }
    }
    let mut idx = 0usize;
    let mut seen: u32 = 0;
    let mut bad_view = false;
    let mut want = Tab::empty();
    if mutable {
        q.retain_mut(|i, p| {
            bad_view |= want0.get(i.key & 31) != Some((i.pay, p.0)) || seen & (1u32 << (i.key & 31)) != 0;
            seen |= 1u32 << (i.key & 31);
            let c = if idx < N { idx } else { 0 };
            p.0 = rew[c];
            i.pay = rpay[c];
            let keep = PAT & (1u32 << c) != 0;
            if keep {
                want.set(i.key & 31, rpay[c], rew[c]);
                if !g.pay {
                    want.any_payload(i.key & 31);
                }
            }
            idx += 1;
            keep
        });
    } else {
        q.retain(|i, p| {
            bad_view |= want0.get(i.key & 31) != Some((i.pay, p.0)) || seen & (1u32 << (i.key & 31)) != 0;
            seen |= 1u32 << (i.key & 31);
            let c = if idx < N { idx } else { 0 };
            let keep = PAT & (1u32 << c) != 0;
            if keep {
                want.set(i.key & 31, i.pay, p.0);
            }
            idx += 1;
            keep
        });
    }
    if g.model || g.ord {
        assert!(idx == N, "CB: predicate called exactly once per stored element");
        assert!(!bad_view, "CB: predicate is shown each stored element once");
        assert!(seen == want0.mask, "CB: predicate has seen every stored element");
    }
    let _ = gh;
    post(&mut q, &want, g);
}

pub fn retain_imm<T: Q, const N: usize, const PAT: u32>(pre: Pre, tables: Tables, g: Grp) {
    retain::<T, N, PAT>(pre, tables, g, false)
}
pub fn retain_mut<T: Q, const N: usize, const PAT: u32>(pre: Pre, tables: Tables, g: Grp) {
    retain::<T, N, PAT>(pre, tables, g, true)
}

// ------------------------------------------------------------------------------------
// clear
// ------------------------------------------------------------------------------------
pub fn clear<T: Q, const N: usize>(pre: Pre, tables: Tables, g: Grp) {
    let (mut q, _gh, _want) = pre_state::<T, N>(pre, tables);
    q.clear();
    let want = Tab::empty();
    assert!(q.peek_hi().is_none(), "EMPTY: peek is None after clear");
    post(&mut q, &want, g);
    // behaves like a fresh queue
    let k = tables.pick_key();
    let p = sym::u8();
    let r = q.push(Item::new(k, 0), Pr(p));
    assert!(r.is_none(), "EMPTY: first push after clear inserts");
    let mut want = Tab::empty();
    want.set(k, 0, p);
    post(&mut q, &want, g);
    assert!(q.pop_hi().map(|(i, p)| (i.key, p.0)) == Some((k, p)), "EMPTY: refilled queue pops what was pushed");
    assert!(q.pop_hi().is_none(), "EMPTY: and is empty again");
}
