//! Family STEP: one public operation from an arbitrary pre-state of concrete size `N`
//! (DESIGN.md §3.4). Each function is one harness body, generic over the queue kind.

use crate::chk::{assert_cont, assert_lookup, assert_ord, assert_struct, Tab};
use crate::cover;
use crate::gen::{state, Ghost, Pre, Tables};
use crate::q::Q;
use crate::sym;
use crate::types::{Item, Pr, KEYS};

/// Which post-conditions a harness instance establishes (large sizes are split into
/// cheaper queries; the conjunction over the groups is the full obligation).
#[derive(Clone, Copy)]
pub struct Grp {
    pub st: bool,
    pub ord: bool,
    pub model: bool,
}
pub const ALL: Grp = Grp { st: true, ord: true, model: true };
pub const STRUCT: Grp = Grp { st: true, ord: false, model: false };
pub const ORDER: Grp = Grp { st: false, ord: true, model: false };
pub const MODEL: Grp = Grp { st: false, ord: false, model: true };

/// `peek*` report stored elements that are extremes of *all* stored priorities
/// (the quantified statement itself, not a consequence drawn from the tree shape).
pub fn assert_peek_extreme<T: Q>(q: &T) {
    let l = q.s_map_len();
    match q.peek_hi() {
        None => assert!(l == 0, "PEEK: None only when empty"),
        Some((i, p)) => {
            assert!(l > 0, "PEEK: Some only when non-empty");
            let mut found = false;
            let mut s = 0;
            while s < l {
                let (si, sp) = q.s_slot(s).unwrap();
                assert!(p.0 >= sp.0, "PEEK: peek/peek_max >= every stored priority");
                if si.key == i.key {
                    found = sp.0 == p.0 && si.pay == i.pay;
                }
                s += 1;
            }
            assert!(found, "PEEK: peek/peek_max reports a stored element");
        }
    }
    if T::DOUBLE {
        match q.peek_lo() {
            None => assert!(l == 0, "PEEK: None only when empty"),
            Some((i, p)) => {
                assert!(l > 0, "PEEK: Some only when non-empty");
                let mut found = false;
                let mut s = 0;
                while s < l {
                    let (si, sp) = q.s_slot(s).unwrap();
                    assert!(p.0 <= sp.0, "PEEK: peek_min <= every stored priority");
                    if si.key == i.key {
                        found = sp.0 == p.0 && si.pay == i.pay;
                    }
                    s += 1;
                }
                assert!(found, "PEEK: peek_min reports a stored element");
            }
        }
    }
}

/// the post-condition shared by every STEP instance
pub fn post<T: Q>(q: &mut T, want: &Tab, g: Grp) {
    if g.st {
        assert_struct(q);
    }
    if g.ord {
        assert_ord(q);
        assert_peek_extreme(q);
    }
    if g.model {
        assert_cont(q, want);
        let probe = sym::below(KEYS);
        assert_lookup(q, want, probe);
    }
    cover!(true, "reach: end of harness");
}

fn pre_state<T: Q, const N: usize>(pre: Pre, tables: Tables) -> (T, Ghost<N>, Tab) {
    let (q, g) = state::<T, N>(pre, tables);
    let want = Tab::of_ghost(&g);
    (q, g, want)
}

// ------------------------------------------------------------------------------------
// push
// ------------------------------------------------------------------------------------
pub fn push<T: Q, const N: usize>(pre: Pre, tables: Tables, g: Grp) {
    let (mut q, _gh, mut want) = pre_state::<T, N>(pre, tables);
    let k = sym::below(KEYS);
    let pay = sym::u8();
    let p = sym::u8();
    let old = want.get(k);
    let r = q.push(Item::new(k, pay), Pr(p));
    if g.model {
        assert!(r.map(|x| x.0) == old.map(|x| x.1), "RET: push returns the previous priority or None");
    }
    match old {
        Some((opay, _)) => want.set(k, opay, p),
        None => want.set(k, pay, p),
    }
    post(&mut q, &want, g);
    cover!(old.is_some(), "push of a present item");
    cover!(old.is_none(), "push of a new item");
}

// ------------------------------------------------------------------------------------
// change_priority / change_priority_by
// ------------------------------------------------------------------------------------
pub fn change_priority<T: Q, const N: usize>(pre: Pre, tables: Tables, g: Grp) {
    let (mut q, _gh, mut want) = pre_state::<T, N>(pre, tables);
    let k = sym::below(KEYS);
    let p = sym::u8();
    let old = want.get(k);
    let r = q.change_priority(&k, Pr(p));
    if g.model {
        assert!(
            r.map(|x| x.0) == old.map(|x| x.1),
            "RET: change_priority returns the old priority or None"
        );
    }
    if let Some((opay, _)) = old {
        want.set(k, opay, p);
    }
    post(&mut q, &want, g);
    cover!(old.map_or(false, |o| o.1 < p), "priority raised");
    cover!(old.map_or(false, |o| o.1 > p), "priority lowered");
    cover!(old.is_none(), "absent item");
}

pub fn change_priority_by<T: Q, const N: usize>(pre: Pre, tables: Tables, g: Grp) {
    let (mut q, _gh, mut want) = pre_state::<T, N>(pre, tables);
    let k = sym::below(KEYS);
    let p = sym::u8();
    let old = want.get(k);
    let mut calls = 0u8;
    let mut seen = 0u8;
    let r = q.change_priority_by(&k, |x| {
        calls += 1;
        seen = x.0;
        x.0 = p;
    });
    if g.model {
        assert!(r == old.is_some(), "RET: change_priority_by reports presence");
        assert!(calls == if old.is_some() { 1 } else { 0 }, "CB: setter called once iff present");
        if let Some((_, oprio)) = old {
            assert!(seen == oprio, "CB: setter sees the stored priority");
        }
    }
    if let Some((opay, _)) = old {
        want.set(k, opay, p);
    }
    post(&mut q, &want, g);
    cover!(old.map_or(false, |o| o.1 < p), "priority raised");
    cover!(old.map_or(false, |o| o.1 > p), "priority lowered");
}

// ------------------------------------------------------------------------------------
// remove
// ------------------------------------------------------------------------------------
pub fn remove<T: Q, const N: usize>(pre: Pre, tables: Tables, g: Grp) {
    let (mut q, _gh, mut want) = pre_state::<T, N>(pre, tables);
    let k = sym::below(KEYS);
    let old = want.get(k);
    let r = q.remove(&k);
    if g.model {
        assert!(
            r.map(|(i, p)| (i.key, i.pay, p.0)) == old.map(|(pay, prio)| (k, pay, prio)),
            "RET: remove returns the stored pair or None"
        );
    }
    want.del(k);
    post(&mut q, &want, g);
    cover!(old.is_some(), "present item removed");
    cover!(old.is_none(), "absent item");
}

// ------------------------------------------------------------------------------------
// pop (high end: PriorityQueue::pop, DoublePriorityQueue::pop_max)
// ------------------------------------------------------------------------------------
pub fn pop_hi<T: Q, const N: usize>(pre: Pre, tables: Tables, g: Grp) {
    let (mut q, gh, mut want) = pre_state::<T, N>(pre, tables);
    let peeked = q.peek_hi().map(|(i, p)| (i.key, i.pay, p.0));
    let r = q.pop_hi().map(|(i, p)| (i.key, i.pay, p.0));
    if g.ord || g.model {
        assert!(r == peeked, "RET: pop/pop_max removes exactly the element peek reported");
        assert!(r.is_some() == (N > 0), "RET: pop is None iff empty");
    }
    if let Some((k, pay, prio)) = r {
        if g.ord && pre == Pre::Inv {
            let mut s = 0;
            while s < N {
                assert!(prio >= gh.prio[s], "RET: popped priority >= every stored priority");
                s += 1;
            }
        }
        if g.model {
            assert!(want.get(k) == Some((pay, prio)), "RET: pop returns a stored pair");
        }
        want.del(k);
    }
    post(&mut q, &want, g);
}

// ------------------------------------------------------------------------------------
// pop_min
// ------------------------------------------------------------------------------------
pub fn pop_lo<T: Q, const N: usize>(pre: Pre, tables: Tables, g: Grp) {
    let (mut q, gh, mut want) = pre_state::<T, N>(pre, tables);
    let peeked = q.peek_lo().map(|(i, p)| (i.key, i.pay, p.0));
    let r = q.pop_lo().map(|(i, p)| (i.key, i.pay, p.0));
    if g.ord || g.model {
        assert!(r == peeked, "RET: pop_min removes exactly the element peek_min reported");
        assert!(r.is_some() == (N > 0), "RET: pop_min is None iff empty");
    }
    if let Some((k, pay, prio)) = r {
        if g.ord && pre == Pre::Inv {
            let mut s = 0;
            while s < N {
                assert!(prio <= gh.prio[s], "RET: popped priority <= every stored priority");
                s += 1;
            }
        }
        if g.model {
            assert!(want.get(k) == Some((pay, prio)), "RET: pop_min returns a stored pair");
        }
        want.del(k);
    }
    post(&mut q, &want, g);
}
