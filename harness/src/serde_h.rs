//! C15: a minimal serde data format whose only job is to hand the crate's `Visitor` a
//! sequence of (item, priority) pairs and to collect what the crate's `Serialize` emits.
//! The crate only ever talks to `Serializer`/`SeqAccess`; the byte-level parsing of a
//! real format (serde_json) is outside the claim (DESIGN.md §5 C15).

use core::fmt;
use serde::de::{self, DeserializeSeed, Deserializer, SeqAccess, Visitor};
use serde::ser::{self, Serialize, SerializeSeq, SerializeTuple, Serializer};

use crate::chk::Tab;
use crate::cover;
use crate::gen::{iota, state_keys, Pre, Tables};
use crate::q::Q;
use crate::step::{post, ALL};
use crate::sym;

#[derive(Debug)]
pub struct Err;
impl fmt::Display for Err {
    fn fmt(&self, f: &mut fmt::Formatter<'_>) -> fmt::Result {
        f.write_str("pair-sequence format error")
    }
}
impl std::error::Error for Err {}
impl de::Error for Err {
    fn custom<T: fmt::Display>(_msg: T) -> Self {
        Err
    }
}
impl ser::Error for Err {
    fn custom<T: fmt::Display>(_msg: T) -> Self {
        Err
    }
}

pub const MAXL: usize = 8;

// ---------------------------------------------------------------- deserializer side
#[derive(Clone, Copy)]
pub struct Pairs {
    /// (key, payload, priority)
    pub items: [(u8, u8, u8); MAXL],
    pub len: usize,
    pub hint: Option<usize>,
}

pub struct SeqDe(pub Pairs);
struct SeqAcc {
    p: Pairs,
    pos: usize,
}
struct PairDe(u8, u8, u8);
struct PairAcc {
    k: u8,
    pay: u8,
    prio: u8,
    pos: u8,
}
struct ItemDe(u8, u8);
struct ItemAcc {
    k: u8,
    pay: u8,
    pos: u8,
}
struct U8De(u8);

macro_rules! reject {
    ($($f:ident)*) => {$(
        fn $f<V: Visitor<'de>>(self, _v: V) -> Result<V::Value, Err> { Result::Err(Err) }
    )*};
}

impl<'de> Deserializer<'de> for SeqDe {
    type Error = Err;
    fn deserialize_any<V: Visitor<'de>>(self, v: V) -> Result<V::Value, Err> {
        self.deserialize_seq(v)
    }
    fn deserialize_seq<V: Visitor<'de>>(self, v: V) -> Result<V::Value, Err> {
        v.visit_seq(SeqAcc { p: self.0, pos: 0 })
    }
    reject!(deserialize_bool deserialize_i8 deserialize_i16 deserialize_i32 deserialize_i64
        deserialize_u8 deserialize_u16 deserialize_u32 deserialize_u64 deserialize_f32 deserialize_f64
        deserialize_char deserialize_str deserialize_string deserialize_bytes deserialize_byte_buf
        deserialize_option deserialize_unit deserialize_map deserialize_identifier deserialize_ignored_any);
    fn deserialize_unit_struct<V: Visitor<'de>>(self, _n: &'static str, _v: V) -> Result<V::Value, Err> {
        Result::Err(Err)
    }
    fn deserialize_newtype_struct<V: Visitor<'de>>(self, _n: &'static str, _v: V) -> Result<V::Value, Err> {
        Result::Err(Err)
    }
    fn deserialize_tuple<V: Visitor<'de>>(self, _l: usize, v: V) -> Result<V::Value, Err> {
        self.deserialize_seq(v)
    }
    fn deserialize_tuple_struct<V: Visitor<'de>>(self, _n: &'static str, _l: usize, _v: V) -> Result<V::Value, Err> {
        Result::Err(Err)
    }
    fn deserialize_struct<V: Visitor<'de>>(self, _n: &'static str, _f: &'static [&'static str], _v: V) -> Result<V::Value, Err> {
        Result::Err(Err)
    }
    fn deserialize_enum<V: Visitor<'de>>(self, _n: &'static str, _f: &'static [&'static str], _v: V) -> Result<V::Value, Err> {
        Result::Err(Err)
    }
}

impl<'de> SeqAccess<'de> for SeqAcc {
    type Error = Err;
    fn next_element_seed<S: DeserializeSeed<'de>>(&mut self, seed: S) -> Result<Option<S::Value>, Err> {
        if self.pos < self.p.len {
            let (k, pay, prio) = self.p.items[self.pos];
            self.pos += 1;
            seed.deserialize(PairDe(k, pay, prio)).map(Some)
        } else {
            Ok(None)
        }
    }
    fn size_hint(&self) -> Option<usize> {
        self.p.hint
    }
}

impl<'de> Deserializer<'de> for PairDe {
    type Error = Err;
    fn deserialize_any<V: Visitor<'de>>(self, v: V) -> Result<V::Value, Err> {
        v.visit_seq(PairAcc { k: self.0, pay: self.1, prio: self.2, pos: 0 })
    }
    fn deserialize_seq<V: Visitor<'de>>(self, v: V) -> Result<V::Value, Err> {
        self.deserialize_any(v)
    }
    fn deserialize_tuple<V: Visitor<'de>>(self, _l: usize, v: V) -> Result<V::Value, Err> {
        self.deserialize_any(v)
    }
    reject!(deserialize_bool deserialize_i8 deserialize_i16 deserialize_i32 deserialize_i64
        deserialize_u8 deserialize_u16 deserialize_u32 deserialize_u64 deserialize_f32 deserialize_f64
        deserialize_char deserialize_str deserialize_string deserialize_bytes deserialize_byte_buf
        deserialize_option deserialize_unit deserialize_map deserialize_identifier deserialize_ignored_any);
    fn deserialize_unit_struct<V: Visitor<'de>>(self, _n: &'static str, _v: V) -> Result<V::Value, Err> {
        Result::Err(Err)
    }
    fn deserialize_newtype_struct<V: Visitor<'de>>(self, _n: &'static str, _v: V) -> Result<V::Value, Err> {
        Result::Err(Err)
    }
    fn deserialize_tuple_struct<V: Visitor<'de>>(self, _n: &'static str, _l: usize, _v: V) -> Result<V::Value, Err> {
        Result::Err(Err)
    }
    fn deserialize_struct<V: Visitor<'de>>(self, _n: &'static str, _f: &'static [&'static str], _v: V) -> Result<V::Value, Err> {
        Result::Err(Err)
    }
    fn deserialize_enum<V: Visitor<'de>>(self, _n: &'static str, _f: &'static [&'static str], _v: V) -> Result<V::Value, Err> {
        Result::Err(Err)
    }
}

impl<'de> SeqAccess<'de> for PairAcc {
    type Error = Err;
    fn next_element_seed<S: DeserializeSeed<'de>>(&mut self, seed: S) -> Result<Option<S::Value>, Err> {
        self.pos += 1;
        match self.pos {
            1 => seed.deserialize(ItemDe(self.k, self.pay)).map(Some),
            2 => seed.deserialize(U8De(self.prio)).map(Some),
            _ => Ok(None),
        }
    }
    fn size_hint(&self) -> Option<usize> {
        Some(2 - self.pos as usize)
    }
}

impl<'de> Deserializer<'de> for ItemDe {
    type Error = Err;
    fn deserialize_any<V: Visitor<'de>>(self, v: V) -> Result<V::Value, Err> {
        v.visit_seq(ItemAcc { k: self.0, pay: self.1, pos: 0 })
    }
    fn deserialize_seq<V: Visitor<'de>>(self, v: V) -> Result<V::Value, Err> {
        self.deserialize_any(v)
    }
    fn deserialize_tuple<V: Visitor<'de>>(self, _l: usize, v: V) -> Result<V::Value, Err> {
        self.deserialize_any(v)
    }
    reject!(deserialize_bool deserialize_i8 deserialize_i16 deserialize_i32 deserialize_i64
        deserialize_u8 deserialize_u16 deserialize_u32 deserialize_u64 deserialize_f32 deserialize_f64
        deserialize_char deserialize_str deserialize_string deserialize_bytes deserialize_byte_buf
        deserialize_option deserialize_unit deserialize_map deserialize_identifier deserialize_ignored_any);
    fn deserialize_unit_struct<V: Visitor<'de>>(self, _n: &'static str, _v: V) -> Result<V::Value, Err> {
        Result::Err(Err)
    }
    fn deserialize_newtype_struct<V: Visitor<'de>>(self, _n: &'static str, _v: V) -> Result<V::Value, Err> {
        Result::Err(Err)
    }
    fn deserialize_tuple_struct<V: Visitor<'de>>(self, _n: &'static str, _l: usize, _v: V) -> Result<V::Value, Err> {
        Result::Err(Err)
    }
    fn deserialize_struct<V: Visitor<'de>>(self, _n: &'static str, _f: &'static [&'static str], _v: V) -> Result<V::Value, Err> {
        Result::Err(Err)
    }
    fn deserialize_enum<V: Visitor<'de>>(self, _n: &'static str, _f: &'static [&'static str], _v: V) -> Result<V::Value, Err> {
        Result::Err(Err)
    }
}

impl<'de> SeqAccess<'de> for ItemAcc {
    type Error = Err;
    fn next_element_seed<S: DeserializeSeed<'de>>(&mut self, seed: S) -> Result<Option<S::Value>, Err> {
        self.pos += 1;
        match self.pos {
            1 => seed.deserialize(U8De(self.k)).map(Some),
            2 => seed.deserialize(U8De(self.pay)).map(Some),
            _ => Ok(None),
        }
    }
    fn size_hint(&self) -> Option<usize> {
        Some(2 - self.pos as usize)
    }
}

impl<'de> Deserializer<'de> for U8De {
    type Error = Err;
    fn deserialize_any<V: Visitor<'de>>(self, v: V) -> Result<V::Value, Err> {
        v.visit_u8(self.0)
    }
    serde::forward_to_deserialize_any! {
        bool i8 i16 i32 i64 u8 u16 u32 u64 f32 f64 char str string bytes byte_buf option unit
        unit_struct newtype_struct seq tuple tuple_struct map struct enum identifier ignored_any
    }
}

// ------------------------------------------------------------------ serializer side
pub struct Collect {
    pub out: Pairs,
    pub declared: Option<usize>,
}

/// serializer for the queue: accepts exactly one sequence
pub struct QSer<'a>(pub &'a mut Collect);
/// serializer for one element: accepts exactly one 2-tuple of (u16, u8)
struct ElemSer<'a>(&'a mut (u8, u8, u8));
struct ElemTuple<'a> {
    slot: &'a mut (u8, u8, u8),
    pos: u8,
}
/// position 0: the item (a 2-tuple of u8), position 1: the priority (u8)
struct PartSer<'a> {
    slot: &'a mut (u8, u8, u8),
    pos: u8,
}
struct ItemTuple<'a> {
    slot: &'a mut (u8, u8, u8),
    pos: u8,
}
/// one byte of the item: field 0 = key, field 1 = payload
struct ByteSer<'a> {
    slot: &'a mut (u8, u8, u8),
    field: u8,
}

macro_rules! ser_reject {
    ($($f:ident($t:ty))*) => {$(
        fn $f(self, _v: $t) -> Result<(), Err> { Result::Err(Err) }
    )*};
}

macro_rules! ser_rest {
    () => {
        type SerializeTupleStruct = ser::Impossible<(), Err>;
        type SerializeTupleVariant = ser::Impossible<(), Err>;
        type SerializeMap = ser::Impossible<(), Err>;
        type SerializeStruct = ser::Impossible<(), Err>;
        type SerializeStructVariant = ser::Impossible<(), Err>;
        fn serialize_none(self) -> Result<(), Err> { Result::Err(Err) }
        fn serialize_some<T: ?Sized + Serialize>(self, _v: &T) -> Result<(), Err> { Result::Err(Err) }
        fn serialize_unit(self) -> Result<(), Err> { Result::Err(Err) }
        fn serialize_unit_struct(self, _n: &'static str) -> Result<(), Err> { Result::Err(Err) }
        fn serialize_unit_variant(self, _n: &'static str, _i: u32, _v: &'static str) -> Result<(), Err> { Result::Err(Err) }
        fn serialize_newtype_struct<T: ?Sized + Serialize>(self, _n: &'static str, _v: &T) -> Result<(), Err> { Result::Err(Err) }
        fn serialize_newtype_variant<T: ?Sized + Serialize>(self, _n: &'static str, _i: u32, _va: &'static str, _v: &T) -> Result<(), Err> { Result::Err(Err) }
        fn serialize_tuple_struct(self, _n: &'static str, _l: usize) -> Result<Self::SerializeTupleStruct, Err> { Result::Err(Err) }
        fn serialize_tuple_variant(self, _n: &'static str, _i: u32, _v: &'static str, _l: usize) -> Result<Self::SerializeTupleVariant, Err> { Result::Err(Err) }
        fn serialize_map(self, _l: Option<usize>) -> Result<Self::SerializeMap, Err> { Result::Err(Err) }
        fn serialize_struct(self, _n: &'static str, _l: usize) -> Result<Self::SerializeStruct, Err> { Result::Err(Err) }
        fn serialize_struct_variant(self, _n: &'static str, _i: u32, _v: &'static str, _l: usize) -> Result<Self::SerializeStructVariant, Err> { Result::Err(Err) }
        ser_reject!(serialize_bool(bool) serialize_i8(i8) serialize_i16(i16) serialize_i32(i32) serialize_i64(i64)
            serialize_u32(u32) serialize_u64(u64) serialize_f32(f32) serialize_f64(f64) serialize_char(char)
            serialize_str(&str) serialize_bytes(&[u8]));
    };
}

impl<'a> Serializer for QSer<'a> {
    type Ok = ();
    type Error = Err;
    type SerializeSeq = QSeq<'a>;
    type SerializeTuple = ser::Impossible<(), Err>;
    ser_rest!();
    ser_reject!(serialize_u8(u8) serialize_u16(u16));
    fn serialize_seq(self, len: Option<usize>) -> Result<QSeq<'a>, Err> {
        self.0.declared = len;
        Ok(QSeq(self.0))
    }
    fn serialize_tuple(self, _l: usize) -> Result<Self::SerializeTuple, Err> {
        Result::Err(Err)
    }
}

pub struct QSeq<'a>(&'a mut Collect);
impl<'a> SerializeSeq for QSeq<'a> {
    type Ok = ();
    type Error = Err;
    fn serialize_element<T: ?Sized + Serialize>(&mut self, v: &T) -> Result<(), Err> {
        if self.0.out.len >= MAXL {
            return Result::Err(Err);
        }
        let mut slot = (0u8, 0u8, 0u8);
        v.serialize(ElemSer(&mut slot))?;
        let l = self.0.out.len;
        self.0.out.items[l] = slot;
        self.0.out.len = l + 1;
        Ok(())
    }
    fn end(self) -> Result<(), Err> {
        Ok(())
    }
}

impl<'a> Serializer for ElemSer<'a> {
    type Ok = ();
    type Error = Err;
    type SerializeSeq = ser::Impossible<(), Err>;
    type SerializeTuple = ElemTuple<'a>;
    ser_rest!();
    ser_reject!(serialize_u8(u8) serialize_u16(u16));
    fn serialize_seq(self, _l: Option<usize>) -> Result<Self::SerializeSeq, Err> {
        Result::Err(Err)
    }
    fn serialize_tuple(self, l: usize) -> Result<ElemTuple<'a>, Err> {
        if l != 2 {
            return Result::Err(Err);
        }
        Ok(ElemTuple { slot: self.0, pos: 0 })
    }
}

impl<'a> SerializeTuple for ElemTuple<'a> {
    type Ok = ();
    type Error = Err;
    fn serialize_element<T: ?Sized + Serialize>(&mut self, v: &T) -> Result<(), Err> {
        let pos = self.pos;
        self.pos += 1;
        v.serialize(PartSer { slot: self.slot, pos })
    }
    fn end(self) -> Result<(), Err> {
        if self.pos == 2 {
            Ok(())
        } else {
            Result::Err(Err)
        }
    }
}

impl<'a> Serializer for PartSer<'a> {
    type Ok = ();
    type Error = Err;
    type SerializeSeq = ser::Impossible<(), Err>;
    type SerializeTuple = ItemTuple<'a>;
    ser_rest!();
    ser_reject!(serialize_u16(u16));
    fn serialize_u8(self, v: u8) -> Result<(), Err> {
        if self.pos == 1 {
            self.slot.2 = v;
            Ok(())
        } else {
            Result::Err(Err)
        }
    }
    fn serialize_seq(self, _l: Option<usize>) -> Result<Self::SerializeSeq, Err> {
        Result::Err(Err)
    }
    fn serialize_tuple(self, l: usize) -> Result<ItemTuple<'a>, Err> {
        if self.pos == 0 && l == 2 {
            Ok(ItemTuple { slot: self.slot, pos: 0 })
        } else {
            Result::Err(Err)
        }
    }
}

impl<'a> SerializeTuple for ItemTuple<'a> {
    type Ok = ();
    type Error = Err;
    fn serialize_element<T: ?Sized + Serialize>(&mut self, v: &T) -> Result<(), Err> {
        let field = self.pos;
        self.pos += 1;
        v.serialize(ByteSer { slot: self.slot, field })
    }
    fn end(self) -> Result<(), Err> {
        if self.pos == 2 {
            Ok(())
        } else {
            Result::Err(Err)
        }
    }
}

impl<'a> Serializer for ByteSer<'a> {
    type Ok = ();
    type Error = Err;
    type SerializeSeq = ser::Impossible<(), Err>;
    type SerializeTuple = ser::Impossible<(), Err>;
    ser_rest!();
    ser_reject!(serialize_u16(u16));
    fn serialize_u8(self, v: u8) -> Result<(), Err> {
        match self.field {
            0 => self.slot.0 = v,
            1 => self.slot.1 = v,
            _ => return Result::Err(Err),
        }
        Ok(())
    }
    fn serialize_seq(self, _l: Option<usize>) -> Result<Self::SerializeSeq, Err> {
        Result::Err(Err)
    }
    fn serialize_tuple(self, _l: usize) -> Result<Self::SerializeTuple, Err> {
        Result::Err(Err)
    }
}

// ------------------------------------------------------------------------ harnesses
pub trait QSerde: Q + Serialize + for<'de> serde::Deserialize<'de> {}
impl<T: Q + Serialize + for<'de> serde::Deserialize<'de>> QSerde for T {}

/// serialize a queue of N elements, deserialize as `D` (either kind): equal contents,
/// correctly ordered, usable
pub fn roundtrip<S: QSerde, D: QSerde, const N: usize>(with_hint: bool) {
    // concrete keys (0..N in a symbolic arrangement): presence tests during deserialization
    // stay concrete, and with them the table lengths
    let (q, gh) = state_keys::<S, N>(Pre::Inv, Tables::Any, iota::<N>());
    let want = Tab::of_ghost(&gh);
    let mut c = Collect {
        out: Pairs { items: [(0, 0, 0); MAXL], len: 0, hint: None },
        declared: None,
    };
    let r = q.serialize(QSer(&mut c));
    assert!(r.is_ok(), "SERDE: serializing a queue succeeds");
    assert!(c.out.len == N, "SERDE: every element is serialized exactly once");
    assert!(c.declared == Some(N), "SERDE: the declared sequence length is the number of elements");
    let mut p = c.out;
    p.hint = if with_hint { Some(N) } else { None };
    let d = D::deserialize(SeqDe(p));
    match d {
        Result::Err(_) => assert!(false, "SERDE: deserializing what was serialized succeeds"),
        Ok(mut d) => {
            post(&mut d, &want, ALL);
            // usable: one pop from the high end agrees with the contents
            let top = d.pop_hi();
            assert!(top.is_some() == (N > 0), "SERDE: the deserialized queue is usable");
        }
    }
    cover!(true, "reach: end of harness");
}

/// any well-typed pair sequence (keys `SEQ`, repeats allowed): an error, or a correctly
/// ordered queue holding every distinct item once with one of the priorities given for
/// it; never a panic
pub fn arbitrary<D: QSerde, const L: usize, const SEQ: u32>(with_hint: bool) {
    let mut p = Pairs { items: [(0, 0, 0); MAXL], len: L, hint: if with_hint { Some(L) } else { None } };
    let mut keys: u32 = 0;
    let mut distinct = 0usize;
    let mut j = 0;
    while j < L {
        let k = crate::bulk::key_of(SEQ, j);
        p.items[j] = (k, sym::u8(), sym::u8());
        if keys & (1u32 << k) == 0 {
            keys |= 1u32 << k;
            distinct += 1;
        }
        j += 1;
    }
    match D::deserialize(SeqDe(p)) {
        Result::Err(_) => {}
        Ok(mut d) => {
            // every distinct item once, with one of the priorities given for it (and one
            // of the item values given for it); the length agrees with the contents
            crate::chk::assert_inv(&d);
            assert!(d.len() == distinct, "SERDE: len() is the number of distinct items of the sequence");
            let mut seen: u32 = 0;
            let mut s = 0;
            while s < d.s_map_len() {
                let (i, pr) = d.s_slot(s).unwrap();
                assert!(i.key < 16 && keys & (1u32 << i.key) != 0, "SERDE: stored item occurs in the sequence");
                assert!(seen & (1u32 << i.key) == 0, "SERDE: every distinct item is stored once");
                seen |= 1u32 << i.key;
                let mut prio_ok = false;
                let mut pay_ok = false;
                let mut j = 0;
                while j < L {
                    if p.items[j].0 == i.key {
                        prio_ok |= p.items[j].2 == pr.0;
                        pay_ok |= p.items[j].1 == i.pay;
                    }
                    j += 1;
                }
                assert!(prio_ok, "SERDE: stored priority is one of those given for the item");
                assert!(pay_ok, "SERDE: stored item value is one of those given for the item");
                s += 1;
            }
            assert!(seen == keys, "SERDE: every distinct item of the sequence is stored");
            crate::step::assert_peek_extreme(&d);
            let top = d.pop_hi();
            assert!(top.is_some() == (distinct > 0), "SERDE: the deserialized queue is usable");
            cover!(true, "deserialization succeeded");
        }
    }
    cover!(true, "reach: end of harness");
}
