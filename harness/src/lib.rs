//! Harness crate for the solver-based checks of garro95/priority-queue (DESIGN.md).
#![allow(clippy::all)]
#![allow(static_mut_refs)]

pub mod chk;
pub mod gen;
pub mod hook;
pub mod iters;
pub mod q;
pub mod step;
pub mod sym;
pub mod types;

pub mod generated;
pub mod replaymain;
