//! Harness crate for the solver-based checks of garro95/priority-queue (DESIGN.md).
#![allow(clippy::all)]
#![allow(static_mut_refs)]

pub mod bulk;
pub mod chk;
pub mod cost;
pub mod crash;
pub mod gen;
pub mod hook;
pub mod iters;
pub mod misc;
pub mod q;
pub mod serde_h;
pub mod step;
pub mod sym;
pub mod types;

pub mod generated;
pub mod replaymain;
