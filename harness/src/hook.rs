//! Observation of user callbacks (`Ord::cmp` on priorities, `Eq`/`Hash` on items,
//! closures, feeding iterators): a call counter for COST and the crash-point probe
//! for CRASH. With `MODE == 0` (every other family) the hook does nothing; CBMC
//! propagates the constant and the code disappears.

pub const CB_CMP: u8 = 1;
pub const CB_EQ: u8 = 2;
pub const CB_HASH: u8 = 4;
pub const CB_CLOSURE: u8 = 8;
pub const CB_ITER: u8 = 16;

pub const MODE_OFF: u8 = 0;
pub const MODE_COUNT: u8 = 1;
pub const MODE_CRASH: u8 = 2;
/// native replay only: the observed callback panics at its CRASH_AT-th invocation
pub const MODE_PANIC: u8 = 3;

pub static mut MODE: u8 = MODE_OFF;
/// which callback kinds are observed
pub static mut MASK: u8 = 0;
/// number of observed callbacks so far
pub static mut CALLS: u32 = 0;
/// CRASH: the index (1-based) of the callback at which the probe fires
pub static mut CRASH_AT: u32 = 0;
/// CRASH: probe fired
pub static mut PROBED: bool = false;
/// CRASH: result of the probe (tables mutually consistent at that instant)
pub static mut PROBE_OK: bool = true;
/// CRASH: type-erased pointer to the queue under test and the probe function
pub static mut PROBE_Q: *const () = core::ptr::null();
pub static mut PROBE_FN: Option<fn(*const (), u8) -> bool> = None;
/// CRASH: a second queue taking part in the operation (`append`), same type
pub static mut PROBE_Q2: *const () = core::ptr::null();

#[inline(always)]
pub fn user_callback(kind: u8) {
    unsafe {
        if MODE == MODE_OFF {
            return;
        }
        if MASK & kind == 0 {
            return;
        }
        CALLS += 1;
        if MODE == MODE_CRASH && CALLS == CRASH_AT {
            PROBED = true;
            if let Some(f) = PROBE_FN {
                PROBE_OK = f(PROBE_Q, kind);
                if !PROBE_Q2.is_null() {
                    PROBE_OK &= f(PROBE_Q2, kind);
                }
            }
        }
        #[cfg(not(kani))]
        if MODE == MODE_PANIC && CALLS == CRASH_AT {
            PROBED = true;
            MODE = MODE_OFF;
            panic!("REPLAY-USER-PANIC: user callback panics at its {}-th invocation", CALLS);
        }
    }
}

pub fn reset() {
    unsafe {
        MODE = MODE_OFF;
        MASK = 0;
        CALLS = 0;
        CRASH_AT = 0;
        PROBED = false;
        PROBE_OK = true;
        PROBE_Q = core::ptr::null();
        PROBE_Q2 = core::ptr::null();
        PROBE_FN = None;
    }
}

pub fn start_count(mask: u8) {
    unsafe {
        MODE = MODE_COUNT;
        MASK = mask;
        CALLS = 0;
    }
}

pub fn calls() -> u32 {
    unsafe { CALLS }
}

pub fn stop() {
    unsafe {
        MODE = MODE_OFF;
    }
}
