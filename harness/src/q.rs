//! One interface over both queue kinds (and any hasher) so that harness bodies are
//! written once. Everything here forwards to the real crate.

use core::hash::BuildHasher;
use priority_queue::{DoublePriorityQueue, PriorityQueue};

use crate::types::{Item, Pr};

pub type Map<H> = indexmap::IndexMap<Item, Pr, H>;
pub type Pq<H> = PriorityQueue<Item, Pr, H>;
pub type Dq<H> = DoublePriorityQueue<Item, Pr, H>;

/// Build the map of a pre-state from its entries (distinct keys, slot order).
pub fn mk_map<H: BuildHasher + Default + crate::types::HashKind>(entries: Vec<(Item, Pr)>, cap: usize) -> Map<H> {
    #[cfg(feature = "modelmap")]
    {
        let _ = cap;
        if H::PER_INSTANCE {
            unsafe {
                indexmap::map::raw_entry_v1::MODEL_CHECK_RAW_HASH = true;
            }
        }
        Map::model_from_entries(entries, H::default())
    }
    #[cfg(not(feature = "modelmap"))]
    {
        let mut m = Map::with_capacity_and_hasher(cap, H::default());
        for (k, v) in entries {
            let old = m.insert(k, v);
            assert!(old.is_none(), "REPLAY-BAD-STATE: duplicate key in pre-state");
        }
        m
    }
}

/// Does an iterator type *declare* an exact size (implement `ExactSizeIterator`)? Decided at
/// compile time from /repo's current source by autoref specialisation, so that the exact-size
/// obligations follow the crate: a type that starts to declare an exact size is held to it,
/// one that does not is not.
pub mod declared {
    pub struct Probe<'x, T>(pub &'x T);
    pub trait Exact {
        fn declared_len(&self) -> Option<usize>;
    }
    impl<'x, T: ExactSizeIterator> Exact for Probe<'x, T> {
        fn declared_len(&self) -> Option<usize> {
            Some(ExactSizeIterator::len(self.0))
        }
    }
    pub trait NotExact {
        fn declared_len(&self) -> Option<usize>;
    }
    impl<'x, T> NotExact for &Probe<'x, T> {
        fn declared_len(&self) -> Option<usize> {
            None
        }
    }
}
#[allow(unused_imports)]
use declared::{Exact, NotExact, Probe};

/// What the harnesses need from an `iter_mut` iterator of either kind.
pub trait MutIt<'a>: Iterator<Item = (&'a mut Item, &'a mut Pr)> {
    /// offers `next_back`
    const DOUBLE_ENDED: bool;
    fn back(&mut self) -> Option<(&'a mut Item, &'a mut Pr)>;
    fn nth_back_q(&mut self, j: usize) -> Option<(&'a mut Item, &'a mut Pr)>;
    /// `Some(len())` iff the type declares an exact size
    fn declared_len(&self) -> Option<usize>;
}

impl<'a, H: BuildHasher> MutIt<'a> for priority_queue::priority_queue::iterators::IterMut<'a, Item, Pr, H> {
    const DOUBLE_ENDED: bool = false;
    fn back(&mut self) -> Option<(&'a mut Item, &'a mut Pr)> {
        unreachable!()
    }
    fn nth_back_q(&mut self, _j: usize) -> Option<(&'a mut Item, &'a mut Pr)> {
        unreachable!()
    }
    fn declared_len(&self) -> Option<usize> {
        (&Probe(self)).declared_len()
    }
}

impl<'a, H: BuildHasher> MutIt<'a> for priority_queue::double_priority_queue::iterators::IterMut<'a, Item, Pr, H> {
    const DOUBLE_ENDED: bool = true;
    fn back(&mut self) -> Option<(&'a mut Item, &'a mut Pr)> {
        self.next_back()
    }
    fn nth_back_q(&mut self, j: usize) -> Option<(&'a mut Item, &'a mut Pr)> {
        self.nth_back(j)
    }
    fn declared_len(&self) -> Option<usize> {
        (&Probe(self)).declared_len()
    }
}

/// What the harnesses need from a sorted consuming iterator of either kind.
pub trait SortedIt: Iterator<Item = (Item, Pr)> {
    fn back(&mut self) -> Option<(Item, Pr)>;
    fn nth_back_q(&mut self, j: usize) -> Option<(Item, Pr)>;
    /// `Some(len())` iff the type declares an exact size
    fn declared_len(&self) -> Option<usize>;
}

impl<H: BuildHasher> SortedIt for priority_queue::priority_queue::iterators::IntoSortedIter<Item, Pr, H> {
    fn back(&mut self) -> Option<(Item, Pr)> {
        unreachable!()
    }
    fn nth_back_q(&mut self, _j: usize) -> Option<(Item, Pr)> {
        unreachable!()
    }
    fn declared_len(&self) -> Option<usize> {
        (&Probe(self)).declared_len()
    }
}

impl<H: BuildHasher> SortedIt for priority_queue::double_priority_queue::iterators::IntoSortedIter<Item, Pr, H> {
    fn back(&mut self) -> Option<(Item, Pr)> {
        self.next_back()
    }
    fn nth_back_q(&mut self, j: usize) -> Option<(Item, Pr)> {
        self.nth_back(j)
    }
    fn declared_len(&self) -> Option<usize> {
        (&Probe(self)).declared_len()
    }
}

pub type CoreIter<'a> = priority_queue::core_iterators::Iter<'a, Item, Pr>;
pub type CoreIntoIter = priority_queue::core_iterators::IntoIter<Item, Pr>;
pub type CoreDrain<'a> = priority_queue::core_iterators::Drain<'a, Item, Pr>;

pub trait Q: Sized + Clone {
    type H: BuildHasher + Default + Clone + crate::types::HashKind;
    const DOUBLE: bool;
    type IterMut<'a>: MutIt<'a>
    where
        Self: 'a;
    type Sorted: SortedIt;
    /// the other queue kind with the same hasher
    type Other: Q<H = Self::H>;

    fn iter_mut_q(&mut self) -> Self::IterMut<'_>;
    /// `for x in &mut q` (the `IntoIterator for &mut Queue` impl)
    fn iter_mut_ref(&mut self) -> Self::IterMut<'_>;
    fn into_sorted_iter_q(self) -> Self::Sorted;
    /// into_sorted_vec / into_descending_sorted_vec
    fn into_desc_vec(self) -> Vec<Item>;
    /// into_ascending_sorted_vec (DoublePriorityQueue only)
    fn into_asc_vec(self) -> Vec<Item>;
    fn iter_q(&self) -> CoreIter<'_>;
    fn iter_ref(&self) -> CoreIter<'_>;
    fn into_iter_q(self) -> CoreIntoIter;
    fn drain_q(&mut self) -> CoreDrain<'_>;
    fn into_other(self) -> Self::Other;

    // ---- construction
    fn from_raw(map: Map<Self::H>, heap: Vec<usize>, qp: Vec<usize>, size: usize) -> Self;
    fn new_q() -> Self;
    fn with_cap(c: usize) -> Self;
    fn from_vec(v: Vec<(Item, Pr)>) -> Self;
    fn from_iter_q<T: IntoIterator<Item = (Item, Pr)>>(it: T) -> Self;

    // ---- raw snapshot (hooks)
    fn s_heap_len(&self) -> usize;
    fn s_qp_len(&self) -> usize;
    fn s_map_len(&self) -> usize;
    fn s_size(&self) -> usize;
    fn s_heap(&self, pos: usize) -> Option<usize>;
    fn s_qp(&self, slot: usize) -> Option<usize>;
    fn s_slot(&self, slot: usize) -> Option<(&Item, &Pr)>;

    // ---- common public API
    fn len(&self) -> usize;
    fn is_empty(&self) -> bool;
    fn capacity(&self) -> usize;
    fn push(&mut self, i: Item, p: Pr) -> Option<Pr>;
    fn push_increase(&mut self, i: Item, p: Pr) -> Option<Pr>;
    fn push_decrease(&mut self, i: Item, p: Pr) -> Option<Pr>;
    fn change_priority(&mut self, k: &u8, p: Pr) -> Option<Pr>;
    fn change_priority_item(&mut self, k: &Item, p: Pr) -> Option<Pr>;
    fn change_priority_by<F: FnOnce(&mut Pr)>(&mut self, k: &u8, f: F) -> bool;
    fn remove(&mut self, k: &u8) -> Option<(Item, Pr)>;
    fn get(&self, k: &u8) -> Option<(&Item, &Pr)>;
    fn get_item(&self, k: &Item) -> Option<(&Item, &Pr)>;
    fn get_mut(&mut self, k: &u8) -> Option<(&mut Item, &Pr)>;
    fn get_priority(&self, k: &u8) -> Option<&Pr>;
    fn retain<F: FnMut(&Item, &Pr) -> bool>(&mut self, f: F);
    fn retain_mut<F: FnMut(&mut Item, &mut Pr) -> bool>(&mut self, f: F);
    fn clear(&mut self);
    fn append(&mut self, other: &mut Self);
    fn extend_q<T: IntoIterator<Item = (Item, Pr)>>(&mut self, it: T);
    fn reserve(&mut self, n: usize);
    fn reserve_exact(&mut self, n: usize);
    fn try_reserve(&mut self, n: usize) -> bool;
    fn try_reserve_exact(&mut self, n: usize) -> bool;
    fn shrink_to_fit(&mut self);
    fn into_vec(self) -> Vec<Item>;
    fn eq_q(&self, other: &Self) -> bool;

    // ---- the "high" end (the only end of a PriorityQueue)
    fn peek_hi(&self) -> Option<(&Item, &Pr)>;
    fn peek_hi_mut(&mut self) -> Option<(&mut Item, &Pr)>;
    fn pop_hi(&mut self) -> Option<(Item, Pr)>;
    fn pop_hi_if<F: FnOnce(&mut Item, &mut Pr) -> bool>(&mut self, f: F) -> Option<(Item, Pr)>;

    // ---- the "low" end (DoublePriorityQueue only; PriorityQueue: unreachable)
    fn peek_lo(&self) -> Option<(&Item, &Pr)>;
    fn peek_lo_mut(&mut self) -> Option<(&mut Item, &Pr)>;
    fn pop_lo(&mut self) -> Option<(Item, Pr)>;
    fn pop_lo_if<F: FnOnce(&mut Item, &mut Pr) -> bool>(&mut self, f: F) -> Option<(Item, Pr)>;
}

macro_rules! common_impl {
    () => {
        fn from_raw(map: Map<H>, heap: Vec<usize>, qp: Vec<usize>, size: usize) -> Self {
            Self::verif_from_raw(map, heap, qp, size)
        }
        fn new_q() -> Self {
            Self::with_default_hasher()
        }
        fn with_cap(c: usize) -> Self {
            Self::with_capacity_and_default_hasher(c)
        }
        fn from_vec(v: Vec<(Item, Pr)>) -> Self {
            Self::from(v)
        }
        fn from_iter_q<T: IntoIterator<Item = (Item, Pr)>>(it: T) -> Self {
            <Self as core::iter::FromIterator<(Item, Pr)>>::from_iter(it)
        }
        fn s_heap_len(&self) -> usize {
            self.verif_heap_len()
        }
        fn s_qp_len(&self) -> usize {
            self.verif_qp_len()
        }
        fn s_map_len(&self) -> usize {
            self.verif_map_len()
        }
        fn s_size(&self) -> usize {
            self.verif_size()
        }
        fn s_heap(&self, pos: usize) -> Option<usize> {
            self.verif_heap(pos)
        }
        fn s_qp(&self, slot: usize) -> Option<usize> {
            self.verif_qp(slot)
        }
        fn s_slot(&self, slot: usize) -> Option<(&Item, &Pr)> {
            self.verif_slot(slot)
        }
        fn len(&self) -> usize {
            Self::len(self)
        }
        fn is_empty(&self) -> bool {
            Self::is_empty(self)
        }
        fn capacity(&self) -> usize {
            Self::capacity(self)
        }
        fn push(&mut self, i: Item, p: Pr) -> Option<Pr> {
            Self::push(self, i, p)
        }
        fn push_increase(&mut self, i: Item, p: Pr) -> Option<Pr> {
            Self::push_increase(self, i, p)
        }
        fn push_decrease(&mut self, i: Item, p: Pr) -> Option<Pr> {
            Self::push_decrease(self, i, p)
        }
        fn change_priority(&mut self, k: &u8, p: Pr) -> Option<Pr> {
            Self::change_priority(self, k, p)
        }
        fn change_priority_item(&mut self, k: &Item, p: Pr) -> Option<Pr> {
            Self::change_priority(self, k, p)
        }
        fn change_priority_by<F: FnOnce(&mut Pr)>(&mut self, k: &u8, f: F) -> bool {
            Self::change_priority_by(self, k, f)
        }
        fn remove(&mut self, k: &u8) -> Option<(Item, Pr)> {
            Self::remove(self, k)
        }
        fn get(&self, k: &u8) -> Option<(&Item, &Pr)> {
            Self::get(self, k)
        }
        fn get_item(&self, k: &Item) -> Option<(&Item, &Pr)> {
            Self::get(self, k)
        }
        fn get_mut(&mut self, k: &u8) -> Option<(&mut Item, &Pr)> {
            Self::get_mut(self, k)
        }
        fn get_priority(&self, k: &u8) -> Option<&Pr> {
            Self::get_priority(self, k)
        }
        fn retain<F: FnMut(&Item, &Pr) -> bool>(&mut self, f: F) {
            Self::retain(self, f)
        }
        fn retain_mut<F: FnMut(&mut Item, &mut Pr) -> bool>(&mut self, f: F) {
            Self::retain_mut(self, f)
        }
        fn clear(&mut self) {
            Self::clear(self)
        }
        fn append(&mut self, other: &mut Self) {
            Self::append(self, other)
        }
        fn extend_q<T: IntoIterator<Item = (Item, Pr)>>(&mut self, it: T) {
            <Self as core::iter::Extend<(Item, Pr)>>::extend(self, it)
        }
        fn reserve(&mut self, n: usize) {
            Self::reserve(self, n)
        }
        fn reserve_exact(&mut self, n: usize) {
            Self::reserve_exact(self, n)
        }
        fn try_reserve(&mut self, n: usize) -> bool {
            Self::try_reserve(self, n).is_ok()
        }
        fn try_reserve_exact(&mut self, n: usize) -> bool {
            Self::try_reserve_exact(self, n).is_ok()
        }
        fn shrink_to_fit(&mut self) {
            Self::shrink_to_fit(self)
        }
        fn into_vec(self) -> Vec<Item> {
            Self::into_vec(self)
        }
        fn eq_q(&self, other: &Self) -> bool {
            self == other
        }
        fn iter_mut_q(&mut self) -> Self::IterMut<'_> {
            self.iter_mut()
        }
        fn iter_mut_ref(&mut self) -> Self::IterMut<'_> {
            <&mut Self as IntoIterator>::into_iter(self)
        }
        fn into_sorted_iter_q(self) -> Self::Sorted {
            self.into_sorted_iter()
        }
        fn iter_q(&self) -> CoreIter<'_> {
            self.iter()
        }
        fn iter_ref(&self) -> CoreIter<'_> {
            <&Self as IntoIterator>::into_iter(self)
        }
        fn into_iter_q(self) -> CoreIntoIter {
            <Self as IntoIterator>::into_iter(self)
        }
        fn drain_q(&mut self) -> CoreDrain<'_> {
            self.drain()
        }
        fn into_other(self) -> Self::Other {
            <Self::Other as From<Self>>::from(self)
        }
    };
}

impl<H: BuildHasher + Default + Clone + crate::types::HashKind> Q for Pq<H> {
    type H = H;
    const DOUBLE: bool = false;
    type IterMut<'a> = priority_queue::priority_queue::iterators::IterMut<'a, Item, Pr, H> where Self: 'a;
    type Sorted = priority_queue::priority_queue::iterators::IntoSortedIter<Item, Pr, H>;
    type Other = Dq<H>;
    common_impl!();

    fn into_desc_vec(self) -> Vec<Item> {
        self.into_sorted_vec()
    }
    fn into_asc_vec(self) -> Vec<Item> {
        unreachable!()
    }

    fn peek_hi(&self) -> Option<(&Item, &Pr)> {
        self.peek()
    }
    fn peek_hi_mut(&mut self) -> Option<(&mut Item, &Pr)> {
        self.peek_mut()
    }
    fn pop_hi(&mut self) -> Option<(Item, Pr)> {
        self.pop()
    }
    fn pop_hi_if<F: FnOnce(&mut Item, &mut Pr) -> bool>(&mut self, f: F) -> Option<(Item, Pr)> {
        self.pop_if(f)
    }
    fn peek_lo(&self) -> Option<(&Item, &Pr)> {
        unreachable!()
    }
    fn peek_lo_mut(&mut self) -> Option<(&mut Item, &Pr)> {
        unreachable!()
    }
    fn pop_lo(&mut self) -> Option<(Item, Pr)> {
        unreachable!()
    }
    fn pop_lo_if<F: FnOnce(&mut Item, &mut Pr) -> bool>(&mut self, _f: F) -> Option<(Item, Pr)> {
        unreachable!()
    }
}

impl<H: BuildHasher + Default + Clone + crate::types::HashKind> Q for Dq<H> {
    type H = H;
    const DOUBLE: bool = true;
    type IterMut<'a> = priority_queue::double_priority_queue::iterators::IterMut<'a, Item, Pr, H> where Self: 'a;
    type Sorted = priority_queue::double_priority_queue::iterators::IntoSortedIter<Item, Pr, H>;
    type Other = Pq<H>;
    common_impl!();

    fn into_desc_vec(self) -> Vec<Item> {
        self.into_descending_sorted_vec()
    }
    fn into_asc_vec(self) -> Vec<Item> {
        self.into_ascending_sorted_vec()
    }

    fn peek_hi(&self) -> Option<(&Item, &Pr)> {
        self.peek_max()
    }
    fn peek_hi_mut(&mut self) -> Option<(&mut Item, &Pr)> {
        self.peek_max_mut()
    }
    fn pop_hi(&mut self) -> Option<(Item, Pr)> {
        self.pop_max()
    }
    fn pop_hi_if<F: FnOnce(&mut Item, &mut Pr) -> bool>(&mut self, f: F) -> Option<(Item, Pr)> {
        self.pop_max_if(f)
    }
    fn peek_lo(&self) -> Option<(&Item, &Pr)> {
        self.peek_min()
    }
    fn peek_lo_mut(&mut self) -> Option<(&mut Item, &Pr)> {
        self.peek_min_mut()
    }
    fn pop_lo(&mut self) -> Option<(Item, Pr)> {
        self.pop_min()
    }
    fn pop_lo_if<F: FnOnce(&mut Item, &mut Pr) -> bool>(&mut self, f: F) -> Option<(Item, Pr)> {
        self.pop_min_if(f)
    }
}
