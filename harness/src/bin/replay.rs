fn main() {
    std::process::exit(pqv::replaymain::replay_main());
}
