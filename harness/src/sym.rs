//! The single source of nondeterminism for every harness.
//!
//! Under Kani each draw is one `kani::any()` of a primitive; natively the draws are
//! read back, in call order, from the byte vectors that Kani's concrete playback
//! printed for the counterexample. A harness body is therefore ordinary Rust that
//! runs unchanged in both worlds.

#[cfg(not(kani))]
mod tape {
    use std::cell::RefCell;
    thread_local! {
        pub static TAPE: RefCell<(Vec<Vec<u8>>, usize)> = RefCell::new((Vec::new(), 0));
    }
    pub fn load(v: Vec<Vec<u8>>) {
        TAPE.with(|t| *t.borrow_mut() = (v, 0));
    }
    pub fn next(width: usize) -> u64 {
        TAPE.with(|t| {
            let mut t = t.borrow_mut();
            let pos = t.1;
            // Kani omits trailing draws that the counterexample does not depend on
            let bytes = t.0.get(pos).cloned().unwrap_or_else(|| vec![0; width]);
            t.1 += 1;
            if bytes.len() != width {
                panic!(
                    "REPLAY-TAPE-MISMATCH: draw {} has {} bytes, harness wants {}",
                    pos,
                    bytes.len(),
                    width
                );
            }
            let mut x = 0u64;
            for (i, b) in bytes.iter().enumerate() {
                x |= (*b as u64) << (8 * i);
            }
            x
        })
    }
    pub fn consumed() -> usize {
        TAPE.with(|t| t.borrow().1)
    }
}

#[cfg(not(kani))]
pub use tape::{consumed, load};

/// Marker payload of the panic raised natively by a false `assume`.
pub const ASSUME_FALSE: &str = "REPLAY-ASSUME-FALSE";

#[inline(always)]
pub fn u8() -> u8 {
    #[cfg(kani)]
    {
        kani::any()
    }
    #[cfg(not(kani))]
    {
        tape::next(1) as u8
    }
}

#[inline(always)]
pub fn bool() -> bool {
    #[cfg(kani)]
    {
        kani::any()
    }
    #[cfg(not(kani))]
    {
        tape::next(1) != 0
    }
}

#[inline(always)]
pub fn usize() -> usize {
    #[cfg(kani)]
    {
        kani::any()
    }
    #[cfg(not(kani))]
    {
        tape::next(8) as usize
    }
}

#[inline(always)]
pub fn u64() -> u64 {
    #[cfg(kani)]
    {
        kani::any()
    }
    #[cfg(not(kani))]
    {
        tape::next(8)
    }
}

#[inline(always)]
pub fn assume(b: bool) {
    #[cfg(kani)]
    {
        kani::assume(b)
    }
    #[cfg(not(kani))]
    {
        if !b {
            panic!("{}", ASSUME_FALSE);
        }
    }
}

/// a `u8` constrained to `0..k` (one draw)
#[inline(always)]
pub fn below(k: u8) -> u8 {
    let x = u8();
    assume(x < k);
    x
}

/// Reachability witness: under Kani a cover property, natively nothing.
#[macro_export]
macro_rules! cover {
    ($cond:expr, $msg:literal) => {{
        #[cfg(kani)]
        {
            kani::cover!($cond, $msg);
        }
        #[cfg(not(kani))]
        {
            let _ = $cond;
        }
    }};
}
